#!/bin/bash
# tools/coverage_checks.sh [IDs...]  - vacuity detector: runs the quick checks under coverage.py (statement coverage of
# /repo/src/fandango, all worker and child processes included) into /var/tmp/verif_cov, without touching /verif/evidence.
# Lines of the library that no check executes are places where no change can be noticed; read the report per anchor file.
set -u
W=/var/tmp/verif_cov; mkdir -p $W/data $W/out $W/site
IDS="${@:-C01 C02 C03 C04 C05 C06 C07 C08 C09 C10 C11 C12 C13 C14 C15 C16 C17 C18 C19 C20}"
cd /verif
export PYTHONHASHSEED=0 PYTHONDONTWRITEBYTECODE=1 PYTHONPATH=/verif:$W/site COVERAGE_PROCESS_START=$W/rc VERIF_OUT=$W/out VERIF_NPROC=${VERIF_NPROC:-8}
unset FANDANGO_RAISE_ALL_EXCEPTIONS
for c in $IDS; do
  /usr/bin/time -f "$c %es" /venv/bin/python -m mc.runner $c --tier quick > $W/out/$c.log 2>&1; echo "$c rc=$? $(tail -1 $W/out/$c.log)"
done
cd $W/data && /venv/bin/python -m coverage combine --rcfile=$W/rc -q --keep . 2>/dev/null
/venv/bin/python -m coverage report --rcfile=$W/rc --skip-empty 2>/dev/null | tail -80
