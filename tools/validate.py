#!/usr/bin/env python3
"""python3-vt tools/validate.py : validates MANIFEST.json and every evidence file against the given schemas."""
import glob, json, sys
import jsonschema
ok = True
m = json.load(open('/verif/MANIFEST.json'))
jsonschema.validate(m, json.load(open('/root/.vp/MANIFEST.schema.json')))
ev_s = json.load(open('/root/.vp/EVIDENCE.schema.json'))
for c in m['checks']:
    p = c['evidence_file']
    try:
        e = json.load(open(p))
        jsonschema.validate(e, ev_s)
        assert e['level'] == c['level_claimed']['category'], (e['level'], c['level_claimed']['category'])
        print('ok ', p, e['tier'], e['wall_s'], 's viol=', e.get('violations'))
    except Exception as ex:
        ok = False
        print('BAD', p, str(ex)[:300])
ids = [c['property_id'] for c in m['checks']] + [n['property_id'] for n in m.get('not_applicable', [])]
assert sorted(ids) == [f"C{i:02d}" for i in range(1, 21)], ids
sys.exit(0 if ok else 1)
