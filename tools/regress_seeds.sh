#!/bin/bash
# tools/regress_seeds.sh [parallel]  - re-checks that every seeded change is still reported by the check(s) named in its meta.json.
# Each seed gets its own scratch worktree of /repo (patched) and its own output directory; /repo and /verif/evidence are not touched.
PAR="${1:-3}"
cd /verif
one() {
  d="$1"; id=$(basename "$d")
  checks=$(python3 -c "import json;print(' '.join(json.load(open('$d/meta.json'))['caught_by_checks'][:1]))")
  wt=/tmp/wt_reg_$id; out=/var/tmp/reg_out_$id
  git -C /repo worktree remove --force $wt >/dev/null 2>&1
  git -C /repo worktree add -q --detach $wt HEAD || { echo "$id worktree failed"; return; }
  cp /repo/src/fandango/language/parser/sa_fandango_cpp_parser.so $wt/src/fandango/language/parser/ 2>/dev/null
  git -C $wt apply "$d/patch.diff" || { echo "$id PATCH-DOES-NOT-APPLY"; git -C /repo worktree remove --force $wt; return; }
  mkdir -p $out
  for c in $checks; do
    o=$(VERIF_SRC=$wt/src VERIF_OUT=$out VERIF_NPROC=6 timeout 2400 ./check $c --tier quick 2>&1); rc=$?
    echo "$id $c rc=$rc violation_lines=$(echo "$o" | grep -c '^VIOLATION')"
  done
  git -C /repo worktree remove --force $wt; rm -rf $out
}
export -f one
ls -d seeded/C*_m*/ | xargs -P "$PAR" -I{} bash -c 'one {}'
