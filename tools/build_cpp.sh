#!/bin/bash
# Rebuilds the C++ .fan front end (speedy-antlr extension) from /repo's current sources into
# /verif/.cache/cpp/<hash>.so, unless a build for exactly these sources is already cached.
# Scratch space is outside /repo and /verif and removed immediately after the build.
# usage: tools/build_cpp.sh [SRC_DIR]   -> prints the path of the .so
set -e
SRC_DIR="${1:-/repo/src/fandango/language/cpp_parser}"
CACHE=/verif/.cache/cpp
mkdir -p "$CACHE"
HASH=$(cd "$SRC_DIR" && find . -type f \( -name '*.cpp' -o -name '*.h' -o -name '*.hpp' \) -print0 | sort -z | xargs -0 sha256sum | sha256sum | cut -c1-20)
OUT="$CACHE/$HASH.so"
if [ -f "$OUT" ]; then
  echo "$OUT"
  exit 0
fi
SCRATCH=$(mktemp -d /var/tmp/c14build.XXXXXX)
trap 'rm -rf "$SCRATCH"' EXIT
cat > "$SCRATCH/CMakeLists.txt" <<'EOF'
cmake_minimum_required(VERSION 3.18)
project(c14 LANGUAGES CXX)
set(CMAKE_CXX_STANDARD 17)
set(CMAKE_CXX_STANDARD_REQUIRED ON)
if(NOT CMAKE_BUILD_TYPE)
  set(CMAKE_BUILD_TYPE Release)
endif()
find_package(Python3 COMPONENTS Interpreter Development.Module REQUIRED)
file(GLOB_RECURSE CPP_SOURCES "${SRC_DIR}/*.cpp")
Python3_add_library(sa_fandango_cpp_parser MODULE ${CPP_SOURCES})
target_link_libraries(sa_fandango_cpp_parser PRIVATE Python3::Module)
target_include_directories(sa_fandango_cpp_parser PRIVATE ${SRC_DIR} ${SRC_DIR}/antlr4-cpp-runtime)
EOF
cmake -S "$SCRATCH" -B "$SCRATCH/build" -DSRC_DIR="$SRC_DIR" -DPython3_EXECUTABLE=/venv/bin/python > "$SCRATCH/cmake.log" 2>&1 || { cat "$SCRATCH/cmake.log" >&2; exit 3; }
cmake --build "$SCRATCH/build" -j "${VERIF_NPROC:-16}" > "$SCRATCH/build.log" 2>&1 || { tail -40 "$SCRATCH/build.log" >&2; exit 3; }
SO=$(ls "$SCRATCH"/build/sa_fandango_cpp_parser*.so | head -1)
cp "$SO" "$OUT.tmp.$$" && mv "$OUT.tmp.$$" "$OUT"
# keep only the three most recent builds
ls -t "$CACHE"/*.so 2>/dev/null | tail -n +4 | xargs -r rm -f
echo "$OUT"
