#!/bin/bash
# runs every registered thorough check sequentially with a wall-clock cap per check; one line per check
# usage: tools/run_thorough.sh [cap_seconds] [ids...]
cd /verif
CAP="${1:-5400}"; shift
IDS="$@"
[ -z "$IDS" ] && IDS=$(python3 -c "import json;print(' '.join(x['property_id'] for x in json.load(open('MANIFEST.json'))['checks']))")
for c in $IDS; do
  s=$(date +%s)
  out=$(timeout $CAP ./check $c --tier thorough 2>&1); rc=$?
  e=$(date +%s)
  echo "$c rc=$rc $((e-s))s violations=$(echo "$out" | grep -c '^VIOLATION') known=$(echo "$out" | grep -c '^KNOWN-FINDING') :: $(echo "$out" | grep 'done:' | cut -c1-260)"
  if [ $rc -ne 0 ]; then echo "$out" | grep -v '^KNOWN-FINDING' | tail -8 | cut -c1-600; fi
done
