#!/usr/bin/env python3
"""Regenerates MANIFEST.json from the table below (single source of truth)."""
import json
import os

VERIF = os.path.dirname(os.path.dirname(os.path.abspath(__file__)))

CHECKS = {
    "C01": dict(
        category="model_checking",
        technique="stateless DFS over all resolutions of the generator's random decisions (random seam), explicit-state reachability over trees under the search operators, deviation-bounded exploration of the real fuzz loop",
        text="(A) for every grammar of the family and node budgets 0/3/10 (thorough 0/1/3/6/10) all resolutions of Grammar.fuzz's random decisions are executed (production budgets 50/200 deviation-bounded); (B) from all small generated trees of seven collision specs, mutate / crossover / repair are applied under every resolution of their random decisions and new trees are expanded further; (C) Fandango.fuzz(population 3, 2 generations) is executed for every resolution within deviation bound 1 (thorough 2) of two base executions. (D) on specs whose generator text also parses as another symbol, every history of <= 1 (thorough 2) parse requests (whole forest / first tree / API parse, every start symbol) is followed by Grammar.fuzz from every symbol under every resolution. Every tree produced anywhere is checked by the RefGrammar derivation checker and its serialisation must be a word of the language. Also: a generator returning the deprecated tuple form (shape not a derivation), and open-ended repetitions whose declared minimum is above the repetition cap in force (a refusal is an answer, a short tree is not).",
        note="Not exhaustive: decision trees are capped (caps reported in evidence), the loop is explored to a deviation bound. MAX_REPETITIONS is lowered to 2-3 to bound randint fan-out.",
        design="4 C01",
    ),
    "C02": dict(
        category="model_checking",
        technique="deviation-bounded exploration of the real fuzz loop plus bounded-exhaustive (tree, constraint) enumeration through the evaluator's acceptance gate, emissions re-judged by a reference evaluator on rebuilt trees",
        text="Every tree handed to solution_callback in every loop execution within the deviation bound (seven collision specs: computed repetitions, equality repair, nested repetitions, recursion with raising operands, bits/bytes, regex/optional, generators) is rebuilt from a plain snapshot and judged by RefConstraint plus a recount of computed repetitions; additionally every enumerated tree x constraint program of the C07 family goes through Evaluator.evaluate_individual and whatever it yields must satisfy the reference; and every tree reachable through mutate / crossover / repair (all resolutions, depth 2, thorough 3) on the collision specs is offered to a fresh evaluator, and whatever it accepts is judged the same way. Programs with a connective are also compiled in lazy mode (all programs in the thorough tier).",
        note="FANDANGO_RAISE_ALL_EXCEPTIONS is unset (production path). The raising-operand defect was repaired; the descendant-selector deviation is a recorded known finding.",
        design="4 C02",
    ),
    "C03": dict(
        category="model_checking",
        technique="exhaustive walk of a finite configuration lattice (h, r, declaration order) on the real evaluator and the public fuzz API",
        text="Every configuration 0..16 x 0..16 (thorough 0..40 x 0..40) of h hard constraints and r computed repetitions in 3 declaration orders, with repetition counts 2 and 0 (zero iterations; h, r <= 6), plus one comparison constraint matching m = 1..32 (thorough 80) places of the witness next to 0/1/3 further constraints, plus the (h, r) question asked again of one spec object after an earlier search with extra constraints, plus 108 constraint forms with their witnesses (any/all/exists/forall over m matches of which only the last or the first satisfies, connectives whose first operand fails, nested quantifiers; eager and lazy compilation; evaluator and API parse), is built as a real spec; an independently confirmed satisfying tree must be yielded by the real Evaluator.evaluate_individual on first sight, and for small h + r Fandango.fuzz(initial_population=[witness]) must report a solution.",
        note="The lattice is finite and walked completely; constraints are tautologies / fixed-count repetitions so the witness is known to satisfy them. Rounding defect repaired in /repo (fix commit, see known_findings.json).",
        design="4 C03",
    ),
    "C07": dict(
        category="model_checking",
        technique="bounded-exhaustive enumeration of (tree, constraint program) pairs, real compiled constraint (eager and lazy) vs a reference semantics",
        text="All independently enumerated derivation trees (<= 12/11 nodes) of two grammars x ~2100 constraint programs (selectors ., .., [i], slices, *, len, |x|; all six comparison operators over str / int / float operands, Python expressions, operands that raise; and/or; any/all/exists/forall incl. nested rebinding and sibling quantifiers) are compiled by the real front end in eager and lazy mode; constraint.check(tree) must equal the RefConstraint verdict and lazy must equal eager.",
        note="Trusted: mc/refconstraint.py as the reading of docs/Paths.md. and/or over atoms is accepted under either reading (combination of universally quantified sub-formulas, or one Python expression). Three deviations are recorded known findings, one was repaired.",
        design="4 C07",
    ),
    "C08": dict(
        category="translation_validation",
        technique="bounded-exhaustive enumeration of Python programs over a construct grammar (small scope), each translated by the real front end and compared with CPython's own AST",
        text="~20000 programs (thorough: plus every three-level nesting over a core of 24 operator constructs in every slot): every expression constructor (operators, comparisons, boolean, conditional, lambdas with every parameter kind, calls with every argument kind, subscripts/slices, displays, comprehensions, f-strings, literals) with every depth-1 expression in every operand slot, statement constructors nested to block depth 2 (assignments, control flow, try/with, def with every parameter kind, decorators, async, class, imports, match/type/walrus), and the expressions again inside constraints, generators and repetition bounds with a symbol reference. ast.dump of CPython's parse of the text Fandango will execute must equal ast.dump of CPython's parse of the source (constant-only f-strings folded, symbol identifiers renamed) unless Fandango rejects the program. In addition 21 programs whose observable result depends on how code is compiled and run (annotations, evaluation order, scoping, assert, __name__) are executed by Fandango and by CPython and their results compared.",
        note="Small-scope translation validation, not a proof for all programs. A rejection is never a violation; acceptance rate and rejected constructs are reported. Four defect classes are recorded known findings (identified by the culprit construct), two were repaired.",
        design="4 C08",
    ),
    "C09": dict(
        category="model_checking",
        technique="bounded-exhaustive enumeration of tree shapes x all accessor orders on one tree object against a reference fold",
        text="Every sequence of <= 3 atoms (thorough: nesting depth 3, plus every sequence of 4 atoms over a core of six) over text/non-ASCII text/empty text/bytes/bit leaves/4-bit and 8-bit runs x every nesting into <= 3 levels x all 24 orders of str/bytes/to_bits/int on the same tree object; each result is compared with RefValue, must not depend on nesting or accessor order, and the tree and every Terminal value object must be unchanged afterwards. Each tree is additionally queried after a history of views under a non-default encoding (on the root / on every node, 4 rotations each); afterwards the str and bytes views of EVERY node must equal those of a freshly built, never queried copy.",
        note="Trusted: RefValue in mc/checks/c09.py written from the property statement. Two deviations are recorded known findings.",
        design="4 C09",
    ),
    "C10": dict(
        category="model_checking",
        technique="explicit-state BFS over histories of public tree operations and evolutionary operators (all random resolutions), invariant checked against from-scratch recomputation",
        text="Breadth-first search (depth 2 quick / 3 thorough, 516-event alphabet) over a forest of live trees: setters, add/set children, replace, deepcopy, split_end/prefix with and without copying, indexing, slicing, selector searches, value conversion, cache warming, and mutate/crossover/repair under every resolution of their random decisions. In addition the operator closure (depth 2) and the deviation-bounded loop exploration of mc/evo.py run on all collision specs (computed repetitions, generators, equality repair, bits, recursion) with the same invariant on operator inputs, results, emitted solutions and population, plus: inputs unchanged, no node object shared between a result and its inputs. In every state every live tree must satisfy size == recount, hash == hash of a freshly built equal tree, child.parent is the listing node, == agrees with structure, and operands of non-mutating operations are unchanged.",
        note="States are canonicalised on the full structural snapshot plus which hash caches are warm. The slice re-parenting defect was repaired in /repo.",
        design="4 C10",
    ),
    "C11": dict(
        category="model_checking",
        technique="explicit-state BFS over histories of evaluate/mutate/crossover/repair/in-place edit/equal-hash twins against one long-lived evaluator, differential oracle against a fresh spec",
        text="Breadth-first search (depth 2 quick / 3 thorough) on four specs (computed repetition, nested and sibling quantifiers, generator with arguments, equality repair): after every transition every live tree is evaluated by the long-lived evaluator and constraint objects (warm caches) and by a brand-new spec + evaluator; fitness, verdict and failing paths must coincide. Drivers force hash coincidences (structurally equal trees that differ in repetition tags or generator sources) and in-place edits below evaluated nodes. Five specs, among them quantifiers that rebind the very symbol they range over.",
        note="Failing parts are compared as paths inside their own root. Two cache-key defects are recorded known findings.",
        design="4 C11",
    ),
    "C12": dict(
        category="model_checking",
        technique="explicit-state BFS over request histories on one spec object, differential oracle against a freshly built spec",
        text="Breadth-first search over histories (depth 3 quick / 4 thorough) of parse, parse_forest, abandoned iteration, include_controlflow, prefix mode, another start symbol, API parse, fuzz-internal parses, requests that hand in a tree instead of a word, and mutation of handed-out trees, leaf edits of handed-out trees and API searches with extra constraints, on seven specs (ambiguous, generator, parameterised generator, computed repetition, bit-level, bytes regex requested with str and bytes words, regex+constraint); observations include read-only marks and generator sources; states are de-duplicated on the forest-cache content plus aliasing of held trees; every request's observation must equal the same request on a fresh spec.",
        note="Canonical state ignores Repetition.iteration counters (observations compared modulo renaming of iteration ids). The truncated-forest-cache defect and the cache key that ignored the starter bit were repaired in /repo.",
        design="4 C12",
    ),
    "C13": dict(
        category="model_checking",
        technique="exhaustive enumeration of all 2^(n-1) fragmentations of every input on the real incremental parser, differential against the one-shot parse plus a reference viable-prefix oracle",
        text="For every grammar of a fragmentation family (multi-character literals, regexes, alternatives sharing prefixes, repetitions, bytes/bit fields) and every input up to length 5 (thorough: 6, and operator depth 2 at length 5) every composition into consecutive fragments is fed through new_parse()/consume(); complete trees after the last fragment must equal the one-shot result, and can_continue() may be False only if no extension is in the reference language. Every composition is also fed in prefix mode (ParsingMode.INCOMPLETE; complete trees after the last fragment == one-shot prefix-mode request), and one long-lived parser object serves all schedules of a grammar (new_parse() per request), as Parser and the packet parser use it.",
        note="Grammars with an empty-deriving body under */+ are included since the C06 repair. Two regex-split deviations are recorded known findings.",
        design="4 C13",
    ),
    "C04": dict(
        category="model_checking",
        technique="bounded-exhaustive explicit enumeration: every grammar of a family x every input up to a length bound on the real parser, each verdict compared with a reference matcher",
        text="All grammars of operator depth <= 2 over collision atoms (plus recursion templates, inner start symbols, byte/bit/regex binary atoms) x all words up to length 4 (quick) / 6 (thorough) over the alphabet plus a foreign character are parsed by the real Earley parser; every yielded tree is checked by an independent derivation checker, must serialise exactly to the input and contain no helper symbols, and non-members must yield nothing; the same for twelve computed-repetition templates against a combinator reference. Through Fandango.parse with constraints, yielded trees must satisfy the reference constraint semantics. The computed-repetition sweep includes records with a separator between count and repetition (equal last terminal, different counts); the API part also configures the spec object for every other start symbol and demands the forest from that symbol.",
        note="Trusted: RefGrammar (mc/refgrammar.py) and Python's re. Small-scope: grammars/words beyond the bounds are not covered.",
        design="4 C04",
    ),
    "C05": dict(
        category="model_checking",
        technique="bounded-exhaustive explicit enumeration of (grammar, word) pairs against a reference language enumerator; generator choice-tree exploration for the round trip",
        text="Every word of the reference language (regex leaves taking the match re.match prefers: narrowest reading of the property's class) up to the length bound must parse to >= 1 tree with identical serialisation, for the same grammar family as C04. Also: the parse forest of every word up to 5 symbols of an ambiguous grammar (three start symbols) must contain every independently enumerated derivation (a constraint may single out any of them).",
        note="Trusted: RefGrammar and, for computed repetitions, the combinator reference of mc/computed_sweep.py. The empty-regex-match defect was repaired for the basic shapes; its residue under nested repetitions and the generated-word/non-preferred-regex-split deviation are recorded known findings.",
        design="4 C05",
    ),
    "C06": dict(
        category="model_checking",
        technique="bounded-exhaustive enumeration of (grammar, input, request kind) with a state-admission budget as bounded-liveness oracle",
        text="Every (grammar, word) of the family is parsed as whole forest and in prefix mode under a Column.add admission budget of 30 000, growing six-fold per input symbol beyond length 4 (quick-tier requests need < 5 000; the measured maximum is in the evidence). A request exceeding the budget or 30 s is reported as non-terminating. Twelve templates of computed repetitions ({int(<n>)}) in recursive, nested, starred and nullable contexts x every word up to length 5 (thorough 7) go through the same requests. First-tree requests (Grammar.parse) are made separately for every member word of the grammars with a derivation cycle, where the forest request is a recorded non-terminating case.",
        note="Bounded liveness: a budget overrun is taken as divergence (margin reported). The nullable-body-under-*/+ divergence was repaired in /repo; divergence on grammars with a derivation cycle (a symbol derives itself without consuming input) is a recorded known finding.",
        design="4 C06",
    ),
    "C14": dict(
        category="model_checking",
        technique="bounded-exhaustive enumeration of spec texts (all line sequences up to a length bound over a lexer-oriented line alphabet, plus shipped specs), differential comparison of the two front ends on every text",
        text="The C++ front end is rebuilt from /repo's current cpp_parser sources (cached by source hash). Every text of <= 2 lines over a 20-line alphabet and <= 3 lines over a core alphabet (thorough: 3 lines over all, 4 over a core), with and without final newline, and with LF / CRLF / bare-CR line endings - rule lines, rules continued over open brackets, where lines, def headers, bodies at indent 1/2 with spaces or tabs, blank and comment lines, f-strings (also with brackets in their literal text), generators, unbalanced brackets, dedents to unseen levels, NUL characters, a byte-order mark - plus the shipped .fan files go through both front ends in one process; parse trees (rule names, token types and texts) and extracted Python code must be identical, or both must reject with the same error class. The line alphabet includes blanks-then-tab indentation and f-strings nested in replacement fields followed by plain strings.",
        note="Two genuine disagreements (leading byte-order mark, NUL inside a token) were repaired in /repo. Trusted: the comparison harness; INDENT/DEDENT token text is ignored (lexer-base artefact nothing downstream reads). Built with cmake/g++ -O2 rather than the project's LTO flags.",
        design="4 C14",
    ),
    "C15": dict(
        category="model_checking",
        technique="bounded-exhaustive enumeration of specs (grammars over printer-oriented atoms, C07 constraint family); read - print - re-read round trip compared structurally / by verdicts on all enumerated trees",
        text="~2450 grammars (operator depth <= 2 over literals with both quote kinds, backslashes, non-ASCII, non-printables, bytes, str/bytes regexes with quotes, bits, groups under every postfix operator, every bound form, generators, computed repetitions; operator-depth-3 grouping frames: postfix operator over a concatenation/alternative whose first/middle/last elements are groups; the same text as literal and regex, str and bytes, in one spec; whole rule bodies that begin and end with a group) and ~900 (thorough ~1800) constraint programs: the generated text is read, printed with repr(grammar) / format_as_spec(), and the printed text is read again. The re-read grammar must denote the same language (both converted node by node into RefGrammar, structural comparison confirmed by a distinguishing word), generators must survive, and the re-read constraint must give the same verdict on every enumerated tree. Also regexes containing both quote kinds and open-ended bounds at and around the process-wide repetition cap (19/20/21).",
        note="Two printer defects were repaired; three are recorded known findings.",
        design="4 C15",
    ),
    "C16": dict(
        category="model_checking",
        technique="explicit-state reachability over trees under the search operators (all random resolutions) and deviation-bounded loop exploration on specs whose generator functions log every call",
        text="On a spec with a constant, a random (through the random seam) and an argument-dependent generator whose functions log (name, arguments, value): every tree reachable through mutate/crossover/repair to depth 2 (thorough 3) and every tree in every loop execution within the deviation bound must carry, in each generator-owned node, a logged return value that equals the function of the argument values recorded in .sources; a generator whose value does not fit its rule must raise under every resolution. Further specs: a generator with two symbol arguments, a no-argument generator next to an equality constraint, an equality between two nodes of one symbol one of which lies inside generator output; and API-parse results handed back as the initial population of a search with extra constraints on a constraint-free generator spec.",
        note="The read-only marking itself is not judged (mechanism, not property). One deviation (equality repair overwrites a generated field) is a recorded known finding.",
        design="4 C16",
    ),
    "C17": dict(
        category="model_checking",
        technique="exhaustive enumeration of environment-seam combinations (heap layout x clock offset x import order) per configuration, each in a fresh process, outputs compared byte for byte",
        text="48 (thorough 160) configurations (16 specs spanning grammar-only, constraints, computed repetitions, equality repair, generators, regexes, bits, soft constraints, ambiguity, wide ambiguity, ambiguous generator output, explicit conjunctions, conditional-expression constraints x seeds x population sizes, plus one 20-generation run per spec) are each run in 8 fresh processes, one per combination of two heap layouts (garbage allocated before importing fandango shifts every id()), two clock offsets and two import orders, with the same PYTHONHASHSEED; the ordered solution sequence, the returned list, the parse forest and the first tree must be identical across all children. Two further specs: a forall failing for several elements of one individual, and a computed repetition whose bounds form a real range.",
        note="Decides independence from these three sources for these configurations only; os.urandom/uuid4 are not intercepted.",
        design="4 C17",
    ),
    "C18": dict(
        category="model_checking",
        technique="explicit-state enumeration of activity histories on other spec objects, each history in its own fresh process, differential oracle against the instance used alone",
        text="All histories up to length 2 (thorough 3) over {fuzz / fuzz that finds its solutions at once / long stagnating fuzz / soft-goal evaluation / parse on spec A, construct / fuzz a third spec, unrelated parse and differently seeded fuzz on B} for spec pairs chosen so that A touches what B reads (stagnation raises the repetition cap, also in protocol mode; B has *, +, {n,}; shared start symbols and words; optimisation goals on both; the same text as plain literal in one spec and as regex in the other), with B constructed before or after the activity on the other objects; plus `fandango shell` sessions (session defaults x commands on another spec) whose last command must print what it prints without them; every history runs in a process forked from a parent that only imported fandango. B's seeded solution sequence and parse forest must equal those of B used alone; a fingerprint of fandango's module-level mutable state is recorded per state.",
        note="The repetition-cap leak was repaired in /repo.",
        design="4 C18",
    ),
    "C19": dict(
        category="model_checking",
        technique="explicit-state BFS over message histories driving the real forecaster and DerivationTree.append, compared state by state with a reference message-level language",
        text="For ~1300 protocol grammars (plus ~1250, thorough ~2500, sliced specs) of operator depth <= 2 over message atoms <A:B:m1>, <B:A:m2>, <A:B:m3> (|, concatenation, ?, *, +, {2}, {1,2}, {2,}, {0,2}, nesting through intermediate symbols, recursion) every history reachable by mounting forecast options (every message type x every mounting path) up to 5 (thorough 6) messages is explored, on the unsliced spec and on the spec sliced to each single party; in every state the predicted (sender, recipient, type) set must equal the letters that extend the history to a prefix of the reference language and complete_trees must be non-empty exactly for full interactions. Also grammars in which one state symbol is referenced from two frontier positions, and sliced specs on whose grammar object a forecaster had already been used before slicing.",
        note="Messages between two external parties are covered with an erasing projection as reference (grammars where an invisible alternative branch makes that reading ambiguous are skipped there). Specs sliced with slice_parties to {A} and to {B} are judged against the projection to the kept party under either reading of slicing (erase / remove). A forecast that exceeds the parser budget is reported as a cap, not judged. Two deviations are recorded known findings; the slicing defect (wrong node removed) was repaired.",
        design="4 C19",
    ),
    "C20": dict(
        category="model_checking",
        technique="stateless schedule exploration of the real protocol loop under a virtual clock and a controlled delivery scheduler (deviation-bounded around two base schedules), plus a free-running real-thread pass",
        text="The unmodified _generate_io loop runs in-process against scripted external parties (ten specs: ping-pong with alternatives and a constraint, optional/repeated exchanges, alternative reply types with an echo constraint, bytes, two peers, one type from two senders, look-ahead, a thrice repeated exchange whose search runs dry, a reply that depends on the received message, message lengths announced in the other side's previous message in both directions) and peer behaviours (valid, wrong type, constraint-violating, truncated, glued/garbage tail, unsolicited early, one peer silent). At every lock-protected buffer access and every poll the explorer decides how many pending remote characters/bytes arrive first, from which peer, or whether the timeout expires; all schedules within deviation bound 2 (thorough 3) of 'everything arrives immediately' and of 'one unit per step' are executed. Oracle per execution: message history is a prefix of an interaction at every step, correct attribution, transmitted messages == recorded ones in order, accepted remote data == delivered data, every message satisfies type and constraints, misbehaving peers never yield a complete interaction.",
        note="The fuzzer's own random decisions are fixed by random.seed(k) for a few k. Real threads only in the separate free-running pass (no scheduler). One consequence of the C19 forecasting defect is a recorded known finding.",
        design="4 C20",
    ),
}

NOT_YET = {}

ALL = [f"C{i:02d}" for i in range(1, 21)]


def main() -> None:
    checks = []
    for pid in ALL:
        if pid not in CHECKS:
            continue
        c = CHECKS[pid]
        checks.append(
            {
                "property_id": pid,
                "quick_cmd": f"./check {pid} --tier quick",
                "thorough_cmd": f"./check {pid} --tier thorough",
                "evidence_file": f"/verif/evidence/{pid}.json",
                "replay_cmd_template": f"./check {pid} --replay {{path}}",
                "engine": "mc",
                "level_claimed": {"category": c["category"], "text": c["text"], "design_ref": c["design"]},
                "level_note": c["note"],
                "technique": c["technique"],
            }
        )
    na = [
        {"property_id": pid, "reason": NOT_YET.get(pid, "check not built yet in this session (work in progress; see DESIGN.md section 4 for the planned model-checking design)")}
        for pid in ALL
        if pid not in CHECKS
    ]
    man = {
        "version": 1,
        "setup_cmd": "./setup.sh",
        "hooks": {
            "guard": "FANDANGO_FUZZER_FANDANGO_VERIF",
            "enable": "no source hooks: all seams are installed from the harness process by replacing module attributes (random.*, time.*, Column.add, FandangoIO accessors)",
            "baseline_off_cmd": "cd /repo && /venv/bin/python -m pytest -ra -q -p no:cacheprovider --timeout=900 --continue-on-collection-errors",
            "source_commits": [],
            "add_only": True,
        },
        "engines": [
            {
                "name": "mc",
                "path": "/verif/mc",
                "serves_properties": [c["property_id"] for c in checks],
                "kind_free_text": "hand-written Python explorers (stateless deviation-bounded DFS over decision points, explicit-state BFS over histories, bounded-exhaustive family enumeration) driving the real Fandango code against reference models",
            }
        ],
        "checks": checks,
        "not_applicable": na,
        "notes": "Known findings (genuine defects recorded, not repaired) are in /verif/known_findings.json; seeded property-breaking changes are under /verif/seeded/.",
    }
    with open(os.path.join(VERIF, "MANIFEST.json"), "w") as fh:
        json.dump(man, fh, indent=1)
        fh.write("\n")


if __name__ == "__main__":
    main()
