#!/bin/bash
# tools/confirm_seed.sh <seed dir with patch.diff + demo.py> [suite]
# Confirms in a scratch worktree: demo passes without the change, fails with it; optionally the repo's suite with the change.
set -u
D="$1"; SUITE="${2:-nosuite}"
NAME=$(basename "$D")
WT=/tmp/wt_confirm_$NAME
git -C /repo worktree remove --force "$WT" >/dev/null 2>&1
git -C /repo worktree add -q --detach "$WT" HEAD || exit 9
cp /repo/src/fandango/language/parser/sa_fandango_cpp_parser.so "$WT/src/fandango/language/parser/" 2>/dev/null
cd "$WT"
PYTHONPATH=$WT/src PYTHONHASHSEED=0 timeout 600 /venv/bin/python "$D/demo.py" > "$D/demo_without.log" 2>&1; RC0=$?
git apply "$D/patch.diff" || { echo "$NAME: patch does not apply"; git -C /repo worktree remove --force "$WT"; exit 9; }
if grep -q 'cpp_parser/' "$D/patch.diff"; then
  # a change to the C++ front end: rebuild the extension from the patched sources and install it in the worktree
  SO=$(/verif/tools/build_cpp.sh "$WT/src/fandango/language/cpp_parser" | tail -1) && cp "$SO" "$WT/src/fandango/language/parser/sa_fandango_cpp_parser.so"
fi
PYTHONPATH=$WT/src PYTHONHASHSEED=0 timeout 600 /venv/bin/python "$D/demo.py" > "$D/demo_with.log" 2>&1; RC1=$?
SUITE_RES="not run"
if [ "$SUITE" = "suite" ]; then
  PATH=/venv/bin:$PATH PYTHONPATH=$WT/src timeout 2400 /venv/bin/python -m pytest -q -p no:cacheprovider --timeout=900 --continue-on-collection-errors -n 8 > "$D/suite_with.log" 2>&1
  SUITE_RES=$(tail -1 "$D/suite_with.log")
  FAILED=$(grep '^FAILED' "$D/suite_with.log" | tr '\n' ';')
  # timing-sensitive IO tests are rerun alone
  if echo "$FAILED" | grep -q .; then
     for t in $(grep '^FAILED' "$D/suite_with.log" | awk '{print $2}'); do
        PATH=/venv/bin:$PATH PYTHONPATH=$WT/src timeout 900 /venv/bin/python -m pytest -q -p no:cacheprovider --timeout=900 -n 0 "$t" > "$D/suite_rerun.log" 2>&1
        SUITE_RES="$SUITE_RES | rerun alone $t: $(tail -1 "$D/suite_rerun.log")"
     done
  fi
fi
cd /; git -C /repo worktree remove --force "$WT"
echo "$NAME: demo_without_rc=$RC0 demo_with_rc=$RC1 suite: $SUITE_RES"
