#!/bin/bash
# tools/intake.sh <PID> <A|B> <new id> <check> [<check>...]
# copies a sub-agent's delivery (/tmp/sa/out/<PID>/<A|B>) to seeded/<new id>, confirms the demo in a scratch worktree
# (exit 0 without / 1 with the change) and tries the named quick checks against the change in another scratch worktree.
set -u
PID="$1"; AB="$2"; NEW="$3"; shift 3
SRC=/tmp/sa/out/$PID/$AB; DST=/verif/seeded/$NEW
[ -f $SRC/patch.diff ] && [ -f $SRC/demo.py ] || { echo "$NEW: delivery incomplete"; exit 9; }
mkdir -p $DST; cp $SRC/patch.diff $SRC/demo.py $DST/; cp $SRC/notes.md $DST/ 2>/dev/null
/verif/tools/confirm_seed.sh $DST nosuite
/verif/tools/try_seed_wt.sh $DST "$@"
