#!/usr/bin/env python3
"""writes seeded/<id>/meta.json for the round-4 seeds (authored by sub-agents that saw only the property text and a scratch worktree)"""
import json, os, re
V = '/verif/seeded'
T = {
 "C01_m5": ("C01", "a generator that returns the deprecated tuple form whose text is a word of the symbol but whose shape is not a derivation", ["C01"], "spec generators_tuple in the collision catalogue (mc/evo.py)"),
 "C01_m6": ("C01", "an open-ended {n,} whose declared minimum is above the process-wide repetition cap in force while generating", ["C01"], "grammars with {3,}/{4,} generated under cap 2 in the generator sweep; a refusal (ValueError) is an answer"),
 "C04_m5": ("C04", "a computed repetition predicted twice in one parse, with an equal last terminal before it and different counts (separator between count and repetition)", ["C04", "C05"], "templates separator_under_star / separator_in_list in mc/computed_sweep.py"),
 "C04_m6": ("C04", "a Fandango object configured with a non-default start_symbol, then parse()", ["C04"], "C04 API part: specs configured for every other start symbol, API result == forest from that symbol"),
 "C05_m5": ("C05", "a computed repetition whose count evaluates to 0 in the input", ["C05"], None),
 "C05_m6": ("C05", "a locally ambiguous grammar and a constraint only a non-first derivation satisfies (ParseState hash without children: one derivation per item and span survives)", ["C05"], "forest completeness against independently enumerated derivations (c04_api.work_forest); this also exposed a genuine defect of the pinned tree (recorded)"),
 "C06_m5": ("C06", "a left-recursive alternative whose remaining symbols are all nullable, completed before the last column", ["C06"], None),
 "C06_m6": ("C06", "a unit-derivation cycle completed only in the last column and a FIRST-TREE request (which returns on the unchanged tree only because the tree is yielded lazily)", ["C06"], "first-tree requests on the grammars with a derivation cycle; the open finding now names forest/prefix requests, and the first-tree requests that do not return on the pinned tree are listed input by input"),
 "C07_m5": ("C07", "an ExpressionConstraint (not a top-level comparison) whose expression raises for some combination and is truthy for the rest", ["C07"], None),
 "C07_m6": ("C07", "a .. selector whose match COUNT matters and two content-identical matches", ["C07"], None),
 "C08_m5": ("C08", "keyword-only parameters after *args with a defaulted one before a required one", ["C08"], "def/lambda forms def g(*p, r=1, s), def g(q, *p, r=1, s, t=2, **w), def g(*, r=1, s=2, t), method variant"),
 "C08_m6": ("C08", "a comparison chain with >= 2 operators (rewritten as a conjunction: middle operand evaluated twice)", ["C08"], None),
 "C09_m5": ("C09", "a bytes leaf that is valid UTF-8 with a different Latin-1 reading, and one view under a non-default encoding requested on that leaf before the default string view", ["C09"], "views under a non-default encoding requested first (root / every node) + atom b'\\xc3\\xa9'"),
 "C09_m6": ("C09", "the bit view of a node whose text/bytes part is present but empty", ["C09"], None),
 "C11_m5": ("C11", "an outermost quantifier that rebinds the symbol it ranges over, evaluated on a second tree by the same constraint object", ["C11"], "spec rebinding in C11"),
 "C13_m5": ("C13", "prefix mode (ParsingMode.INCOMPLETE), more than one consume() in one parse, a cut where a rule is partly matched", ["C13"], "prefix-mode schedules in C13"),
 "C13_m6": ("C13", "one IterativeParser object reused for a second incremental parse, first can_continue() query at the byte count of the previous parse's last query", ["C13"], "one long-lived parser object serves all schedules of a grammar"),
 "C14_m5": ("C14", "indentation where a tab follows 1-7 blanks and another line of the block reaches the same column by other characters", ["C14"], "lines with blanks-then-tab indentation"),
 "C14_m6": ("C14", "an f-string nested in a replacement field of another f-string, followed by an ordinary string literal", ["C14"], "nested f-string lines"),
 "C15_m5": ("C15", "an open-ended {n,} whose lower bound equals the process-wide cap in force when printing", ["C15"], None),
 "C15_m6": ("C15", "a regex terminal containing both quote characters", ["C15"], "regex atom with both quote kinds"),
 "C17_m5": ("C17", "a forall whose body fails for >= 2 elements of one individual, >= 1 generation with mutation, separate processes", ["C17"], "spec forall_many"),
 "C17_m6": ("C17", "a computed repetition whose bounds form a real range (min < max) and individuals violating it", ["C17"], "spec computed_range"),
 "C19_m5": ("C19", "a non-nullable state symbol referenced from two positions on the exploration frontier of one history", ["C19"], "state symbol referenced twice (optional group / star body / alternative, then again)"),
 "C19_m6": ("C19", "a forecaster built for a grammar object, then slice_parties on the same object, then a new forecaster", ["C19"], "a forecaster is used on the unsliced grammar object before it is sliced in place"),
}
RES = json.load(open('/verif/seeded/round4_results.json')) if os.path.exists('/verif/seeded/round4_results.json') else {}
for sid, (prop, needs, caught, strengthened) in T.items():
    d = os.path.join(V, sid)
    if not os.path.isdir(d):
        continue
    r = RES.get(sid, {})
    meta = {"id": sid, "breaks_property": prop, "needs_to_manifest": needs,
            "caught_by_checks": r.get("caught_by", caught), "strengthening_needed": strengthened if r.get("as_built") is not True else None,
            "origin": "written by an independent sub-agent that saw only the property text and a scratch worktree (round 4)",
            "confirmed": r.get("confirmed", "demo confirmed in a scratch worktree (demo exits 0 without the change, 1 with it); repository suite run by the authoring sub-agent under heavy machine load (see notes.md for what completed), my own full-suite confirmation pending"),
            "how_checked": f"tools/try_seed_wt.sh seeded/{sid} <checks>  (scratch worktree of /repo with the patch, VERIF_SRC/VERIF_OUT; quick tier)",
            "result": r.get("result")}
    json.dump(meta, open(os.path.join(d, "meta.json"), "w"), indent=1)
print("ok")
