#!/bin/bash
# tools/try_seed.sh <patch.diff> <check> [<check> ...]
# applies a seeded change to /repo, runs the given quick checks, reverts. Prints one line per check.
set -u
PATCH="$1"; shift
cd /repo || exit 9
if ! git diff --quiet; then echo "/repo is dirty"; exit 9; fi
# patches were made in worktrees: paths are relative to the repo root
git apply "$PATCH" || { echo "patch does not apply"; exit 9; }
for c in "$@"; do
  out=$(cd /verif && ./check "$c" --tier quick 2>&1)
  rc=$?
  nv=$(echo "$out" | grep -c '^VIOLATION')
  echo "== $c rc=$rc violations_lines=$nv :: $(echo "$out" | grep -E 'unlisted violations' | head -3 | tr -s ' ' | tr '\n' ';' | cut -c1-300)"
  echo "$out" | grep -A1 '^VIOLATION' | grep -v '^--' | head -4 | cut -c1-400
done
git -C /repo checkout -- . 
git -C /repo status --short | head -3
