#!/bin/bash
# runs every registered quick check on the current /repo tree; prints one line per check
cd /verif
TIER="${1:-quick}"
for c in $(python3 -c "import json;print(' '.join(x['property_id'] for x in json.load(open('MANIFEST.json'))['checks']))"); do
  s=$(date +%s)
  out=$(./check $c --tier $TIER 2>&1); rc=$?
  e=$(date +%s)
  echo "$c rc=$rc $((e-s))s violations=$(echo "$out" | grep -c '^VIOLATION') known=$(echo "$out" | grep -c '^KNOWN-FINDING')"
  if [ $rc -ne 0 ]; then echo "$out" | tail -5; fi
done
