#!/usr/bin/env python3
"""writes seeded/<id>/meta.json from the table below + the confirmation logs"""
import json, os, re, glob
V='/verif/seeded'
TABLE = {
 "C01_m1": dict(breaks="C01", needs="a computed {expr} repetition whose body has >= 2 symbols and an individual with too few repetitions, so that the insert repair runs", caught_by=["C01"], strengthened="added collision spec computed_rep_group ((<a> <b>){int(<n>)}) to mc/evo.py; before that C01 and C02 missed it"),
 "C01_m2": dict(breaks="C01", needs="one fix_individual call with two replacements, one of which shifts the children to the left of the other (computed repetition followed by a constrained <tail>)", caught_by=["C01", "C02"], strengthened="added collision spec rep_and_tail; before that missed"),
 "C04_m1": dict(breaks="C04", needs="the same word parsed completely from two different start symbols on ONE grammar object", caught_by=["C04", "C12"], strengthened="C04 sweep now interleaves <start> and an inner start symbol on one spec object (parser_sweep.work_two_starts); C12's cache canonicalisation made robust to a changed key shape; before that C04 missed it and C12 crashed"),
 "C04_m2": dict(breaks="C04", needs=">= 2 constraints and an input violating a non-last one", caught_by=["C04"], strengthened="C04 API part now builds specs with two and three separate where clauses; before that missed"),
 "C07_m1": dict(breaks="C07", needs="a nonterminal-bound quantifier whose body applies .. to the bound symbol", caught_by=["C07", "C02"], strengthened=None),
 "C07_m2": dict(breaks="C07", needs="lazy=True and a constraint-level `and` (no parentheses) under an identifier-bound any()/all()", caught_by=["C07"], strengthened="refconstraint.Bare prints and/or inside quantifier bodies without parentheses; before that every nested connective was parenthesised and the lazy conjunction path was never generated"),
 "C10_m1": dict(breaks="C10", needs="a hashed tree, a partial copy (copy_children=False), and a hash of the copy", caught_by=["C10"], strengthened="added copy_nochildren / copy_noparent operations; before that missed"),
 "C10_m2": dict(breaks="C10", needs="cached hash in an ancestor, then a size-preserving in-place edit below it", caught_by=["C10"], strengthened=None),
 "C12_m1": dict(breaks="C12", needs="a plain forest request iterated to the end, then the same word with include_controlflow=True", caught_by=["C12"], strengthened=None),
 "C12_m2": dict(breaks="C12", needs="an abandoned prefix-mode parse followed by a prefix parse of the same word", caught_by=["C12"], strengthened="added prefix_first / prefix_abandon1 / api_prefix_first requests AND the residual state of the shared incremental parser to the canonical state; with the requests alone it was still missed because the state was merged with its predecessor"),
 "C13_m1": dict(breaks="C13", needs="input type differs from the literal's type (text literal read from bytes) and a cut strictly inside that literal", caught_by=["C13"], strengthened="added multi-character text literals in bytes-input grammars to the C13 family; before that missed"),
 "C13_m2": dict(breaks="C13", needs="a regex cut where the text so far is only a partial match although a shorter prefix was a complete one ((ab)+ after an odd number of characters)", caught_by=["C13"], strengthened="added regexes with non-prefix-closed partial matches; before that missed"),
}
logs = {}
for f in glob.glob('/tmp/confirm_wave*.log'):
    for line in open(f):
        m = re.match(r'^(C\d\d_m\d): (.*)$', line.strip())
        if m: logs[m.group(1)] = m.group(2)
for k, v in TABLE.items():
    d = os.path.join(V, k)
    if not os.path.isdir(d): continue
    meta = dict(id=k, breaks_property=v["breaks"], needs_to_manifest=v["needs"], caught_by_checks=v["caught_by"],
                strengthening_needed=v["strengthened"], origin="written by an independent sub-agent that saw only the property text and a scratch worktree",
                confirmed=logs.get(k, "demo confirmed in a scratch worktree (demo exits 0 without the change, 1 with it); repository suite run by the authoring sub-agent, my own full-suite confirmation pending"),
                how_checked="tools/try_seed.sh seeded/%s/patch.diff %s  (git apply on /repo, quick checks, git checkout -- .)" % (k, " ".join(v["caught_by"])))
    json.dump(meta, open(os.path.join(d, 'meta.json'), 'w'), indent=1)
print("wrote", len(TABLE))
