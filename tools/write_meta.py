#!/usr/bin/env python3
"""writes seeded/<id>/meta.json from the table below + the confirmation logs"""
import json, os, re, glob
V='/verif/seeded'
TABLE = {
 "C01_m1": dict(breaks="C01", needs="a computed {expr} repetition whose body has >= 2 symbols and an individual with too few repetitions, so that the insert repair runs", caught_by=["C01"], strengthened="added collision spec computed_rep_group ((<a> <b>){int(<n>)}) to mc/evo.py; before that C01 and C02 missed it"),
 "C01_m2": dict(breaks="C01", needs="one fix_individual call with two replacements, one of which shifts the children to the left of the other (computed repetition followed by a constrained <tail>)", caught_by=["C01", "C02"], strengthened="added collision spec rep_and_tail; before that missed"),
 "C04_m1": dict(breaks="C04", needs="the same word parsed completely from two different start symbols on ONE grammar object", caught_by=["C04", "C12"], strengthened="C04 sweep now interleaves <start> and an inner start symbol on one spec object (parser_sweep.work_two_starts); C12's cache canonicalisation made robust to a changed key shape; before that C04 missed it and C12 crashed"),
 "C04_m2": dict(breaks="C04", needs=">= 2 constraints and an input violating a non-last one", caught_by=["C04"], strengthened="C04 API part now builds specs with two and three separate where clauses; before that missed"),
 "C07_m1": dict(breaks="C07", needs="a nonterminal-bound quantifier whose body applies .. to the bound symbol", caught_by=["C07", "C02"], strengthened=None),
 "C07_m2": dict(breaks="C07", needs="lazy=True and a constraint-level `and` (no parentheses) under an identifier-bound any()/all()", caught_by=["C07"], strengthened="refconstraint.Bare prints and/or inside quantifier bodies without parentheses; before that every nested connective was parenthesised and the lazy conjunction path was never generated"),
 "C10_m1": dict(breaks="C10", needs="a hashed tree, a partial copy (copy_children=False), and a hash of the copy", caught_by=["C10"], strengthened="added copy_nochildren / copy_noparent operations; before that missed"),
 "C10_m2": dict(breaks="C10", needs="cached hash in an ancestor, then a size-preserving in-place edit below it", caught_by=["C10"], strengthened=None),
 "C12_m1": dict(breaks="C12", needs="a plain forest request iterated to the end, then the same word with include_controlflow=True", caught_by=["C12"], strengthened=None),
 "C12_m2": dict(breaks="C12", needs="an abandoned prefix-mode parse followed by a prefix parse of the same word", caught_by=["C12"], strengthened="added prefix_first / prefix_abandon1 / api_prefix_first requests AND the residual state of the shared incremental parser to the canonical state; with the requests alone it was still missed because the state was merged with its predecessor"),
 "C13_m1": dict(breaks="C13", needs="input type differs from the literal's type (text literal read from bytes) and a cut strictly inside that literal", caught_by=["C13"], strengthened="added multi-character text literals in bytes-input grammars to the C13 family; before that missed"),
 "C13_m2": dict(breaks="C13", needs="a regex cut where the text so far is only a partial match although a shorter prefix was a complete one ((ab)+ after an odd number of characters)", caught_by=["C13"], strengthened="added regexes with non-prefix-closed partial matches; before that missed"),
 "C02_m1": dict(breaks="C02", needs=">= 2 constraints of one class, one of which raises out of Constraint.fitness() itself (e.g. str(<d>) < 5 raises when the values are compared), the others satisfied", caught_by=["C02"], strengthened="C02 direct part now evaluates PAIRS of constraints (quantifier over a rare symbol x comparison over a frequent one, and comparisons that raise at comparison time); before that missed"),
 "C02_m2": dict(breaks="C02", needs="a satisfied any()/exists constraint (score > 1) next to a violated constraint with enough partial credit", caught_by=["C02"], strengthened="same constraint pairs; before that missed"),
 "C05_m1": dict(breaks="C05", needs="the same nullable nonterminal twice in direct succession, both empty", caught_by=["C05"], strengthened=None),
 "C05_m2": dict(breaks="C05", needs="an rb'...' regex that can produce a byte >= 0x80", caught_by=["C05", "C01"], strengthened="added a high-byte bytes regex to the binary atoms AND tightened the signature of known finding C05-generated-word-needs-nonpreferred-regex-split (it now requires the generated word to be in the reference language); before that the violation was produced but swallowed by the too-loose finding"),
 "C09_m1": dict(breaks="C09", needs="an uninterrupted run of >= 16 bit leaves whose first 8 bits are 0", caught_by=["C09"], strengthened="added an 8-zero-bits atom; before that missed"),
 "C09_m2": dict(breaks="C09", needs="text-only prefix, then a subtree with a bytes leaf that ends in bit leaves", caught_by=["C09"], strengthened=None),
 "C11_m1": dict(breaks="C11", needs="a cached comparison result reaching something that reads .success (check(), a quantifier over structurally equal elements)", caught_by=["C11", "C07"], strengthened="C11's observation now includes check() of every long-lived constraint object and the reference spec has ALL memoisation switched off (fd.disable_constraint_caches); before that only C07 caught it"),
 "C11_m2": dict(breaks="C11", needs="any() nested in a quantifier bound to a Python variable, inner verdicts that differ between outer elements", caught_by=["C11", "C07"], strengthened="added such a constraint to C11's quantifier spec and atoms whose verdict depends on the outer variable to C07; memo-free reference as above"),
 "C16_m1": dict(breaks="C16", needs="a generator with >= 2 symbol arguments and an operator that edits a non-last one", caught_by=["C16"], strengthened="added spec generators2 (cat(<w>, <z>) with constraints on the arguments); before that missed"),
 "C16_m2": dict(breaks="C16", needs="a no-argument generator, the equality repair that unlocks its children, then an operator that picks a node inside the field", caught_by=["C16"], strengthened="added spec generators_eq and attribution of foreign text to the operator application that introduces it"),
 "C19_m1": dict(breaks="C19", needs="one message type at two grammar positions with swapped direction, reachable by the same type sequence", caught_by=["C19"], strengthened="added a message type travelling in both directions to the family; before that missed"),
 "C19_m2": dict(breaks="C19", needs="two directly adjacent elements of a concatenation that are both invisible to the fuzzer (messages between two external parties)", caught_by=["C19"], strengthened="added messages between two external parties (slicing) with an erasing projection as reference; before that missed"),
 "C20_m1": dict(breaks="C20", needs=">= 2 remote messages, the first satisfying and a later one violating a constraint", caught_by=["C20"], strengthened="added a constraint on the second remote message and the peer behaviour second_reply_violates_constraint; before that missed"),
 "C20_m2": dict(breaks="C20", needs="a remote message type that is not prefix-free, followed by data of the same party already buffered", caught_by=["C20"], strengthened="added scenario lookahead; before that missed"),
}
logs = {}
for f in glob.glob('/tmp/confirm_wave*.log'):
    for line in open(f):
        m = re.match(r'^(C\d\d_m\d): (.*)$', line.strip())
        if m: logs[m.group(1)] = m.group(2)
for k, v in TABLE.items():
    d = os.path.join(V, k)
    if not os.path.isdir(d): continue
    meta = dict(id=k, breaks_property=v["breaks"], needs_to_manifest=v["needs"], caught_by_checks=v["caught_by"],
                strengthening_needed=v["strengthened"], origin="written by an independent sub-agent that saw only the property text and a scratch worktree",
                confirmed=logs.get(k, "demo confirmed in a scratch worktree (demo exits 0 without the change, 1 with it); repository suite run by the authoring sub-agent, my own full-suite confirmation pending"),
                how_checked="tools/try_seed.sh seeded/%s/patch.diff %s  (git apply on /repo, quick checks, git checkout -- .)" % (k, " ".join(v["caught_by"])))
    json.dump(meta, open(os.path.join(d, 'meta.json'), 'w'), indent=1)
print("wrote", len(TABLE))
