#!/bin/bash
# tools/try_seed_wt.sh <seed dir> <check> [<check> ...]
# like try_seed.sh, but in a scratch worktree of /repo (VERIF_SRC / VERIF_OUT): /repo and /verif/evidence are not touched,
# so several seeds can be tried at once. Prints one line per check plus the first violation lines.
set -u
D="$(realpath "$1")"; shift
id=$(basename "$(dirname "$D")")_$(basename "$D"); wt=/tmp/wt_try_$id; out=/var/tmp/try_out_$id
git -C /repo worktree remove --force $wt >/dev/null 2>&1
git -C /repo worktree add -q --detach $wt HEAD || { echo "$id worktree failed"; exit 9; }
cp /repo/src/fandango/language/parser/sa_fandango_cpp_parser.so $wt/src/fandango/language/parser/ 2>/dev/null
git -C $wt apply "$D/patch.diff" || { echo "$id PATCH-DOES-NOT-APPLY"; git -C /repo worktree remove --force $wt; exit 9; }
mkdir -p $out
cd /verif
for c in "$@"; do
  o=$(VERIF_SRC=$wt/src VERIF_OUT=$out VERIF_NPROC=${VERIF_NPROC:-8} timeout 2400 ./check $c --tier quick 2>&1); rc=$?
  echo "== $id $c rc=$rc violation_lines=$(echo "$o" | grep -c '^VIOLATION') :: $(echo "$o" | grep -E 'unlisted violations' | head -3 | tr -s ' ' | tr '\n' ';' | cut -c1-300)"
  echo "$o" | grep -A1 '^VIOLATION' | grep -v '^--' | head -4 | cut -c1-400
  [ $rc -ge 2 ] && echo "$o" | tail -15
done
git -C /repo worktree remove --force $wt; rm -rf $out
