"""Helpers around the real Fandango objects (always the /repo/src tree)."""

from __future__ import annotations

import signal
from contextlib import contextmanager
from typing import Any, Iterator, Optional, Union

from mc.common import InternalError, bind_fandango

bind_fandango()

import fandango  # noqa: E402
from fandango import Fandango  # noqa: E402
from fandango.language.grammar import ParsingMode  # noqa: E402
from fandango.language.symbols import NonTerminal, Terminal  # noqa: E402
from fandango.language.tree import DerivationTree  # noqa: E402


def build(fan: str, constraints: Optional[list] = None, lazy: bool = False, start_symbol: Optional[str] = None, **kw: Any) -> Fandango:
    """A fresh spec object from text (no stdlib, no on-disk cache)."""
    kw.setdefault("logging_level", 50)
    return Fandango(fan, constraints, use_stdlib=False, use_cache=False, lazy=lazy, start_symbol=start_symbol, **kw)


def leaf_value(sym: Any) -> Union[str, bytes, int, tuple]:
    v = sym.value()
    if v._value is None:
        tb = list(v._trailing_bits)
        return tb[0] if len(tb) == 1 else ("bits", tuple(tb))
    if v._trailing_bits:
        return ("mixed", v._value, tuple(v._trailing_bits))
    return v._value


def snap(t: DerivationTree) -> tuple:
    """Plain nested-tuple snapshot: ("N", name, kids) | ("T", value)."""
    s = t.symbol
    if s.is_terminal:
        return ("T", leaf_value(s))
    if s.is_non_terminal:
        return ("N", s.name(), tuple(snap(c) for c in t._children))
    return ("S", "<slice>", tuple(snap(c) for c in t._children))


def snap_full(t: DerivationTree) -> tuple:
    """Snapshot including sender/recipient, read_only, origin_repetitions and sources."""
    s = t.symbol
    if s.is_terminal:
        head: tuple = ("T", leaf_value(s))
    elif s.is_non_terminal:
        head = ("N", s.name())
    else:
        head = ("S", "<slice>")
    return head + (
        t._sender,
        t._recipient,
        bool(t.read_only),
        tuple(tuple(x) for x in t.origin_repetitions),
        tuple(snap_full(c) for c in t._children),
        tuple(snap_full(c) for c in t._sources),
    )


def has_helper_symbols(t: tuple) -> Optional[str]:
    if t[0] == "N":
        if t[1].startswith("<__") or t[1].startswith("<*"):
            return t[1]
        for k in t[2]:
            r = has_helper_symbols(k)
            if r:
                return r
    return None


class Timeout(Exception):
    pass


@contextmanager
def time_limit(seconds: float) -> Iterator[None]:
    def handler(signum: int, frame: Any) -> None:
        raise Timeout()

    old = signal.signal(signal.SIGALRM, handler)
    signal.setitimer(signal.ITIMER_REAL, seconds)
    try:
        yield
    finally:
        signal.setitimer(signal.ITIMER_REAL, 0)
        signal.signal(signal.SIGALRM, old)


class Budget(Exception):
    pass


class AdmissionCounter:
    """Counts Column.add admissions (the parser's unit of work); stops a request that
    exceeds the budget."""

    def __init__(self, budget: int):
        self.budget = budget
        self.count = 0
        self.max_seen = 0

    def __enter__(self) -> "AdmissionCounter":
        from fandango.language.grammar.parser.column import Column

        self._Column = Column
        self._orig = Column.add
        me = self

        def add(col: Any, state: Any) -> bool:
            me.count += 1
            if me.count > me.budget:
                raise Budget()
            return me._orig(col, state)

        Column.add = add  # type: ignore
        return self

    def reset(self, terminated: bool = False) -> None:
        """max_seen only records requests that terminated."""
        if terminated:
            self.max_seen = max(self.max_seen, self.count)
        self.count = 0

    def __exit__(self, *a: Any) -> None:
        self._Column.add = self._orig  # type: ignore


def reset_constraint_caches(spec: Any) -> None:
    """Empty every Constraint.cache reachable from the spec's constraints (harness only: the
    stateless explorer re-executes a body on the same objects and needs the same decisions)."""
    seen: set = set()

    def walk(c: Any) -> None:
        if id(c) in seen:
            return
        seen.add(id(c))
        if hasattr(c, "cache") and isinstance(getattr(c, "cache"), dict):
            c.cache.clear()
        for v in list(getattr(c, "__dict__", {}).values()):
            if hasattr(v, "fitness") and hasattr(v, "format_as_spec"):
                walk(v)
            elif isinstance(v, (list, tuple)):
                for x in v:
                    if hasattr(x, "fitness") and hasattr(x, "format_as_spec"):
                        walk(x)

    for c in spec.constraints:
        walk(c)


class NoCache(dict):
    """a Constraint.cache that never remembers anything"""

    def __setitem__(self, k: Any, v: Any) -> None:
        return None

    def __contains__(self, k: Any) -> bool:
        return False


def disable_constraint_caches(spec: Any) -> None:
    """Replace every Constraint.cache reachable from the spec by a NoCache: evaluation on this spec is
    then what the constraints compute from scratch, with no memo at any level."""
    seen: set = set()

    def walk(c: Any) -> None:
        if id(c) in seen:
            return
        seen.add(id(c))
        if hasattr(c, "cache") and isinstance(getattr(c, "cache"), dict):
            c.cache = NoCache()
        for v in list(getattr(c, "__dict__", {}).values()):
            if hasattr(v, "fitness") and hasattr(v, "format_as_spec"):
                walk(v)
            elif isinstance(v, (list, tuple)):
                for x in v:
                    if hasattr(x, "fitness") and hasattr(x, "format_as_spec"):
                        walk(x)

    for c in spec.constraints:
        walk(c)
