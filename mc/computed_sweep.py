"""Parser sweep over grammars with COMPUTED repetitions (`<x>{int(<n>)}`), which RefGrammar only
over-approximates: recursive / nested / nullable contexts of a computed bound x every word up to
a length bound, on the real parser (whole forest in COMPLETE mode, and prefix mode).

Reference: a combinator recogniser written per template (sets of end positions; the count is read
from the digit matched just before; left recursion is written in its iterative form, which
denotes the same language).  Oracles: C06 every request returns within the admission / time
budget; C04 a tree is only returned for members and serialises to the input; C05 every member
gets a tree.
"""
from __future__ import annotations

from mc.common import pmap_tagged, rotate, tag
from mc.fd import AdmissionCounter, ParsingMode, build, has_helper_symbols, snap
from mc.refgrammar import snap_text, words

ADMISSION_BUDGET = 30_000


# ---- reference combinators: a parser maps (word, i) -> set of end positions
def lit(s):
    return lambda w, i: {i + len(s)} if w.startswith(s, i) else set()


def alt(*ps):
    return lambda w, i: set().union(*(p(w, i) for p in ps))


def seq(*ps):
    def run(w, i):
        cur = {i}
        for p in ps:
            cur = set().union(*(p(w, j) for j in cur)) if cur else set()
        return cur
    return run


def rep(p, lo, hi):
    def run(w, i):
        out, cur, k = set(), {i}, 0
        if lo == 0:
            out |= cur
        seen = set()
        while cur and (hi is None or k < hi):
            nxt = set().union(*(p(w, j) for j in cur))
            k += 1
            if k >= lo:
                out |= nxt
            key = (frozenset(nxt), min(k, lo))
            if hi is None and key in seen:
                break
            seen.add(key)
            cur = nxt
        return out
    return run


def counted(digits, body, extra=0, sep=""):
    """<n> sep body{int(<n>) + extra}: one digit of `digits`, a fixed separator, then exactly that many bodies"""
    def run(w, i):
        out = set()
        for d in digits:
            if w.startswith(d + sep, i):
                out |= rep(body, int(d) + extra, int(d) + extra)(w, i + 1 + len(sep))
        return out
    return run


def lazy(get):
    return lambda w, i: get()(w, i)


def _templates() -> list:
    ab = alt(lit("a"), lit("b"))
    item = counted("012", ab)
    out = []
    N = '<n> ::= "0" | "1" | "2"\n'
    X = '<x> ::= "a" | "b"\n'
    out.append(("plain", '<start> ::= <n> <x>{int(<n>)}\n' + N + X, seq(item), "012ab"))
    out.append(("tail", '<start> ::= <n> <x>{int(<n>)} "a"\n' + N + X, seq(item, lit("a")), "012ab"))
    out.append(("left_recursive_list", '<start> ::= <list>\n<list> ::= <list> "," <item> | <item>\n<item> ::= <n> <x>{int(<n>)}\n' + N + X,
                seq(item, rep(seq(lit(","), item), 0, None)), "012a,"))
    out.append(("right_recursive_list", '<start> ::= <list>\n<list> ::= <item> "," <list> | <item>\n<item> ::= <n> <x>{int(<n>)}\n' + N + X,
                seq(item, rep(seq(lit(","), item), 0, None)), "012a,"))
    node = []
    node.append(alt(counted("012", lazy(lambda: node[0])), lit(".")))
    out.append(("self_nesting", '<start> ::= <node>\n<node> ::= <n> <node>{int(<n>)} | "."\n' + N, node[0], "012."))
    out.append(("under_star", '<start> ::= (<n> <x>{int(<n>)})*\n' + N + X, rep(item, 0, None), "012ab"))
    out.append(("under_plus_with_sep", '<start> ::= (<n> <x>{int(<n>)} ";")+\n' + N + X, rep(seq(item, lit(";")), 1, None), "012a;"))
    out.append(("nullable_body", '<start> ::= <n> <e>{int(<n>)} "b"\n' + N + '<e> ::= "a"?\n', seq(counted("012", alt(lit("a"), lit(""))), lit("b")), "012ab"))
    out.append(("count_plus_one", '<start> ::= <n> <x>{int(<n>) + 1}\n' + N + X, counted("012", ab, extra=1), "012ab"))
    out.append(("two_counts", '<start> ::= <n> <x>{int(<n>)} <m> <y>{int(<m>)}\n' + N + X + '<m> ::= "0" | "1"\n<y> ::= "b"\n',
                seq(item, counted("01", lit("b"))), "012ab"))
    out.append(("group_body", '<start> ::= <n> (<x> "-"){int(<n>)}\n' + N + X, counted("012", seq(ab, lit("-"))), "012a-"))
    # the same text stands between every count and its repetition: the last terminal read before the repetition is predicted is
    # equal for all records of one input although their counts differ
    sep_item = counted("012", lit("a"), sep=":")
    out.append(("separator_under_star", '<start> ::= (<n> ":" <x>{int(<n>)})*\n' + N + '<x> ::= "a"\n', rep(sep_item, 0, None), "01a:"))
    out.append(("separator_in_list", '<start> ::= <item> | <item> "," <start>\n<item> ::= <n> ":" <x>{int(<n>)}\n' + N + '<x> ::= "a"\n',
                seq(sep_item, rep(seq(lit(","), sep_item), 0, None)), "01a:,"))
    nested = []
    nested.append(counted("012", alt(lit("a"), seq(lit("["), lazy(lambda: nested[0]), lit("]")))))
    out.append(("bracket_recursion", '<start> ::= <blk>\n<blk> ::= <n> <el>{int(<n>)}\n<el> ::= "a" | "[" <blk> "]"\n' + N, nested[0], "012a[]"))
    return out


def templates(tier: str) -> list:
    n = 5 if tier == "quick" else 7
    # two records with a separator and different counts need 5-6 symbols ("1:a0:", "1:a,0:"); those templates get their own bound
    own = {"separator_under_star": 6 if tier == "quick" else 8, "separator_in_list": 6 if tier == "quick" else 7}
    return [(name, fan, alphabet, own.get(name, n)) for name, fan, _, alphabet in _templates()]


def _ref(name):
    for nm, _, p, _ in _templates():
        if nm == name:
            return p
    raise KeyError(name)


def _forest(spec, w, mode, counter):
    from mc.parser_sweep import _parse_all
    return _parse_all(spec, w, "<start>", mode, counter)


def work(item) -> dict:
    name, fan, alphabet, maxlen, which = item
    ref = _ref(name)
    res = {"name": name, "fan": fan, "words": 0, "members": 0, "trees": 0, "budget_hits": 0, "viol": [], "max_adm": 0, "skipped_words": 0}
    spec, spec2 = build(fan), build(fan)
    counter = AdmissionCounter(ADMISSION_BUDGET)
    hits = 0
    with counter:
        for w in words(list(alphabet), maxlen):
            if hits >= 2:
                res["skipped_words"] += 1
                continue
            res["words"] += 1
            is_member = len(w) in ref(w, 0)
            res["members"] += is_member
            base = {"grammar": fan, "template": name, "word": repr(w), "request": "forest"}
            status, trees = _forest(spec, w, ParsingMode.COMPLETE, counter)
            if status in ("budget", "timeout"):
                hits += 1
                res["budget_hits"] += 1
                res["viol"].append(("C06", dict(base, kind="nontermination", status=status, sig=f"nontermination:computed:{name}")))
                continue
            res["trees"] += len(trees)
            if status.startswith("error"):
                pid = "C05" if is_member else None
                if pid:
                    res["viol"].append((pid, dict(base, kind="error_on_member", status=status, sig=f"error_on_member:computed:{name}")))
                continue
            for t in trees:
                s = snap(t)
                why = None
                if has_helper_symbols(s):
                    why = "helper symbol in result"
                elif snap_text(s) != w or str(t) != w:
                    why = f"tree serialises to {str(t)!r}, input was {w!r}"
                if why:
                    res["viol"].append(("C04", dict(base, kind="unsound_tree", why=why, tree=repr(s)[:300], sig=f"unsound:computed:{name}")))
                    break
            if trees and not is_member:
                res["viol"].append(("C04", dict(base, kind="accepts_nonmember", n_trees=len(trees), sig=f"accepts_nonmember:computed:{name}")))
            if is_member and not trees:
                res["viol"].append(("C05", dict(base, kind="rejects_member", needs_empty_regex_match=False, sig=f"rejects_member:computed:{name}")))
            if "C06" in which:
                st2, _ = _forest(spec2, w, ParsingMode.INCOMPLETE, counter)
                if st2 in ("budget", "timeout"):
                    hits += 1
                    res["budget_hits"] += 1
                    res["viol"].append(("C06", dict(base, request="prefix", kind="nontermination", status=st2, sig=f"nontermination:computed:{name}:prefix")))
        res["max_adm"] = counter.max_seen
    return res


def sweep(ctx, which: set) -> dict:
    items = rotate(templates(ctx.tier), ctx.seed)
    tasks = [it + (which,) for it in items]
    results = pmap_tagged(work, tasks, chunk=1)
    agg = {"grammars": len(results), "words": 0, "members": 0, "trees": 0, "budget_hits": 0, "skipped_words": 0, "max_adm": 0, "per_template": {}}
    for t, r in zip(tasks, results):
        for k in ("words", "members", "trees", "budget_hits", "skipped_words"):
            agg[k] += r[k]
        agg["max_adm"] = max(agg["max_adm"], r["max_adm"])
        agg["per_template"][r["name"]] = {"words": r["words"], "members": r["members"], "trees": r["trees"]}
        for pid, case in r["viol"]:
            if pid == ctx.pid:
                tag(case, "mc.computed_sweep", "work", t)
                ctx.violation(case)
    return agg
