"""Bounded-exhaustive generators of grammars (simplest first)."""

from __future__ import annotations

from typing import Iterable, Iterator

from mc.refgrammar import Alt, Bit, Lit, NT, Opt, Plus, RefGrammar, Rep, Rx, Seq, Star

UNARY = [
    lambda x: Opt(x),
    lambda x: Star(x),
    lambda x: Plus(x),
    lambda x: Rep(x, 2, 2),
    lambda x: Rep(x, 1, 2),
    lambda x: Rep(x, 2, None),
    lambda x: Rep(x, 0, 2),
]


def _seq(a, b):
    ia = a.items if isinstance(a, Seq) else (a,)
    ib = b.items if isinstance(b, Seq) else (b,)
    return Seq(ia + ib)


def _alt(a, b):
    ia = a.items if isinstance(a, Alt) else (a,)
    ib = b.items if isinstance(b, Alt) else (b,)
    return Alt(ia + ib)


def exprs(atoms: list, depth: int, unary=UNARY, full_binary_depth: int = 1) -> list:
    """All rule bodies of operator depth <= depth.  Binary operators combine two
    sub-expressions of which at least one has depth d-1; beyond full_binary_depth the
    other operand is restricted to atoms (keeps depth 2 in the thousands)."""
    levels = [list(atoms)]
    seen = set(levels[0])
    for d in range(1, depth + 1):
        prev = levels[d - 1]
        lower = [e for lv in levels[:d] for e in lv]
        new = []

        def add(e):
            if e not in seen:
                seen.add(e)
                new.append(e)

        for u in unary:
            for e in prev:
                # drop stacked postfix operators that only re-express each other
                add(u(e))
        others = lower if d <= full_binary_depth else list(atoms)
        for e in prev:
            for o in others:
                add(_seq(e, o))
                add(_seq(o, e))
                add(_alt(e, o))
                if o is not e:
                    add(_alt(o, e))
        levels.append(new)
    return [e for lv in levels for e in lv]


def text_atoms() -> list:
    return [Lit("a"), Lit("ab"), Rx("a*"), Rx("[ab]"), Lit("b")]


def recursion_templates(atoms: list) -> Iterator[RefGrammar]:
    a, b = Lit("a"), Lit("b")
    yield RefGrammar({"<start>": Alt((Seq((NT("<start>"), a)), b))})  # left recursion
    yield RefGrammar({"<start>": Alt((Seq((a, NT("<start>"))), b))})  # right recursion
    yield RefGrammar({"<start>": Alt((Seq((a, NT("<start>"), b)), Lit("ab")))})  # centre
    yield RefGrammar({"<start>": Alt((Seq((NT("<start>"), NT("<start>"))), a))})  # ambiguous
    yield RefGrammar({"<start>": Seq((NT("<x>"), NT("<y>"))), "<x>": Alt((Seq((a, NT("<y>"))), a)), "<y>": Alt((Seq((b, NT("<x>"))), b))})
    yield RefGrammar({"<start>": Seq((Star(NT("<e>")), b)), "<e>": Opt(a)})  # nullable helper under *
    yield RefGrammar({"<start>": Seq((Plus(NT("<e>")), b)), "<e>": Alt((a, Rx("b?")))})
    yield RefGrammar({"<start>": Seq((Rep(NT("<e>"), 2, None), b)), "<e>": Opt(a)})
    yield RefGrammar({"<start>": Star(Seq((Rep(NT("<x>"), 1, 2), Lit("-")))), "<x>": Alt((a, b))})  # nested repetitions
    yield RefGrammar({"<start>": Seq((NT("<x>"), Opt(NT("<start>")))), "<x>": Alt((a, Lit("ab"), Rx("a*b")))})
    yield RefGrammar({"<start>": Alt((Seq((NT("<start>"), Opt(a))), b))})  # left recursion with nullable tail
    # derivation cycles: a symbol derives itself without consuming input (infinitely many derivations per word)
    yield RefGrammar({"<start>": Alt((Seq((NT("<start>"), NT("<start>"))), a, Lit("")))})
    yield RefGrammar({"<start>": Alt((NT("<y>"), a)), "<y>": Alt((NT("<start>"), b))})           # unit cycle through two symbols
    yield RefGrammar({"<start>": Alt((NT("<start>"), a))})                                          # unit cycle on one symbol
    yield RefGrammar({"<start>": Alt((Seq((NT("<x>"), NT("<start>"))), a)), "<x>": Opt(b)})       # cycle through a nullable neighbour
    yield RefGrammar({"<start>": Seq((Star(Star(a)), b))})
    yield RefGrammar({"<start>": Seq((Plus(Plus(a)), b))})
    yield RefGrammar({"<start>": Seq((Star(Rx("a*")), b))})
    yield RefGrammar({"<start>": Seq((Star(Alt((a, Lit("aa")))), Opt(b)))})


def text_family(depth: int, atoms=None, full_binary_depth: int = 1) -> list:
    atoms = atoms or text_atoms()
    gs = [RefGrammar({"<start>": e}) for e in exprs(atoms, depth, full_binary_depth=full_binary_depth)]
    gs.extend(recursion_templates(atoms))
    # an inner start symbol: <start> wraps <x>
    return gs


def binary_atoms() -> list:
    bit = NT("<bit>")
    return [
        Lit(b"\x01"),
        Rep(bit, 8, 8),
        Seq((Rep(bit, 4, 4), Bit(0), Bit(0), Bit(0), Bit(1))),
        Rx("[\\x00\\x01]", True),
        Rx("[\\x7f\\x80\\xff]", True),   # a bytes regex that can produce bytes >= 0x80
        Seq((NT("<nib>"), NT("<nib>"))),
        Lit("a"),
        Rx(".", True),   # '.' does not match 0x0a (no DOTALL): the alphabet holds a newline byte
    ]


def binary_family(depth: int) -> list:
    extra = {"<bit>": Alt((Bit(0), Bit(1))), "<nib>": Rep(NT("<bit>"), 4, 4)}
    out = []
    for e in exprs(binary_atoms(), depth, unary=[UNARY[0], UNARY[1], UNARY[2], UNARY[4]], full_binary_depth=1):
        rules = {"<start>": e}
        used = repr(e)
        if "<bit>" in used or "<nib>" in used:
            rules["<bit>"] = extra["<bit>"]
        if "<nib>" in used:
            rules["<nib>"] = extra["<nib>"]
        out.append(RefGrammar(rules, binary=True))
    return out


def features(g: RefGrammar) -> list:
    """Syntactic features of a grammar, used to describe cases (and to identify known
    findings by the class of input that fails)."""
    from mc.refgrammar import WordMatcher

    feats = set()

    def nullable(n) -> bool:
        wm = WordMatcher(g, "" if not g.binary else b"")
        return 0 in _ends_solved(wm, n)

    def walk(n, under_rep: bool) -> None:
        if isinstance(n, Rx):
            feats.add("regex")
            import re

            if re.fullmatch(n.pat if not n.is_bytes else n.pat, ""):
                feats.add("empty_regex")
        if isinstance(n, Bit):
            feats.add("bits")
        if isinstance(n, Lit) and isinstance(n.v, bytes):
            feats.add("bytes")
        if isinstance(n, Lit) and len(n.v) > 1:
            feats.add("multichar_literal")
        if isinstance(n, (Seq, Alt)):
            for x in n.items:
                walk(x, under_rep)
        if isinstance(n, Opt):
            walk(n.x, under_rep)
        if isinstance(n, (Star, Plus, Rep)):
            if isinstance(n, Rep) and n.hi is None:
                feats.add("open_rep")
            if nullable(n.x):
                if isinstance(n, (Star, Plus)):
                    feats.add("nullable_under_star_plus")
                elif n.hi is None:
                    feats.add("nullable_under_open_rep")
                else:
                    feats.add("nullable_under_bounded_rep")
            walk(n.x, True)

    for name, body in g.rules.items():
        walk(body, False)
        if _left_recursive(g, name):
            feats.add("left_recursion")
        if _derivation_cycle(g, name):
            feats.add("derivation_cycle")
    return sorted(feats)


def _derivation_cycle(g: RefGrammar, name: str) -> bool:
    """name =>+ name without consuming input: a production of name (transitively) has an occurrence of name whose
    whole context can derive the empty string (unit cycles, <a> ::= <a> <a> | "", ...).  Such a grammar gives every
    word of the symbol infinitely many derivations."""
    from mc.refgrammar import WordMatcher

    wm = WordMatcher(g, "" if not g.binary else b"")

    def nullable(n) -> bool:
        return 0 in _ends_solved(wm, n)

    def alone(n) -> set:
        """nonterminals X such that n =>* X (everything around X derives the empty string)"""
        if isinstance(n, NT):
            return {n.name}
        if isinstance(n, Seq):
            out = set()
            for i, x in enumerate(n.items):
                if all(nullable(y) for j, y in enumerate(n.items) if j != i):
                    out |= alone(x)
            return out
        if isinstance(n, Alt):
            return set().union(*[alone(x) for x in n.items]) if n.items else set()
        if isinstance(n, Opt):
            return alone(n.x)
        if isinstance(n, (Star, Plus)):
            return alone(n.x)
        if isinstance(n, Rep):
            return alone(n.x) if (n.hi is None or n.hi >= 1) and (n.lo <= 1 or nullable(n.x)) else set()
        return set()

    seen, todo = set(), [name]
    while todo:
        cur = todo.pop()
        if cur not in g.rules:
            continue
        for f in alone(g.rules[cur]):
            if f == name:
                return True
            if f not in seen:
                seen.add(f)
                todo.append(f)
    return False


def _ends_solved(wm, n):
    wm.ends(n, 0)
    wm.solve()
    return wm.ends(n, 0)


def _left_recursive(g: RefGrammar, name: str) -> bool:
    from mc.refgrammar import WordMatcher

    wm = WordMatcher(g, "" if not g.binary else b"")

    def first_nts(n) -> set:
        if isinstance(n, NT):
            return {n.name}
        if isinstance(n, Seq):
            out = set()
            for x in n.items:
                out |= first_nts(x)
                if 0 not in _ends_solved(wm, x):
                    break
            return out
        if isinstance(n, Alt):
            return set().union(*[first_nts(x) for x in n.items])
        if isinstance(n, (Opt, Star, Plus, Rep)):
            return first_nts(n.x)
        return set()

    seen, todo = set(), [name]
    while todo:
        cur = todo.pop()
        for f in first_nts(g.rules[cur]):
            if f == name:
                return True
            if f not in seen and f in g.rules:
                seen.add(f)
                todo.append(f)
    return False
