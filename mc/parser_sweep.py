"""The parser sweep shared by C04 (soundness), C05 (completeness / round trip) and C06
(termination): every grammar of a family x every word up to a length bound, on the real
parser, against RefGrammar."""

from __future__ import annotations

import itertools
from typing import Any, Optional

from mc import families
from mc.common import Ctx, InternalError, pmap, rotate, tag, pmap_tagged
from mc.fd import AdmissionCounter, Budget, ParsingMode, Timeout, build, has_helper_symbols, snap, time_limit
from mc.refgrammar import Alt, NT, Lit, RefGrammar, Seq, TreeChecker, WordMatcher, member, snap_text, words

ADMISSION_BUDGET = 30_000  # terminating requests of the swept sizes need < 5 000 (maximum is reported)
TIME_BUDGET_S = 30.0
FOREST_CAP = 64


def grammar_items(tier: str) -> list:
    """(RefGrammar, start symbol, max word length, alphabet)"""
    items = []
    quick = tier == "quick"
    tf = families.text_family(2, full_binary_depth=1)
    if quick:
        # depth <= 1 completely, depth 2 restricted to two atoms + recursion templates
        small = families.text_family(2, atoms=[Lit("a"), families.Rx("a*"), Lit("ab")], full_binary_depth=1)
        d1 = families.text_family(1)
        seen = set()
        tf = []
        for g in d1 + small:
            k = g.fan()
            if k not in seen:
                seen.add(k)
                tf.append(g)
    n_text = 4 if quick else 6
    for g in tf:
        items.append((g, "<start>", n_text, ["a", "b", "c"]))
    # inner start symbol (requested on its own, and interleaved with <start> on the same spec object)
    for e in families.exprs(families.text_atoms(), 1):
        g = RefGrammar({"<start>": Seq((NT("<x>"), Lit("!"))), "<x>": e})
        items.append((g, "<x>", n_text, ["a", "b", "!"]))
    for e in families.exprs(families.text_atoms(), 1):
        g = RefGrammar({"<start>": Alt((NT("<x>"), Seq((NT("<x>"), Lit("a"))))), "<x>": e})
        items.append((g, "<start>+<x>", min(n_text, 3), ["a", "b"]))
    bf = families.binary_family(1 if quick else 2)
    n_bin = 2 if quick else 3
    for g in bf:
        items.append((g, "<start>", n_bin, [0x00, 0x01, 0x0A, 0x61, 0x80, 0xFF] if not quick else [0x00, 0x01, 0x0A, 0x61, 0x80]))
    # '.' in text regexes against an alphabet with a newline
    for e in families.exprs([families.Rx("."), Lit("a"), families.Rx(".a")], 1):
        items.append((RefGrammar({"<start>": e}), "<start>", 3 if quick else 4, ["a", "\n", "b"]))
    return items


def budget_scale(n: int) -> int:
    """The number of derivations of an ambiguous repetition such as ("a"{0,2}){2,} grows about five-fold per input
    symbol and the parser enumerates them all (measured: 29 956 admissions at length 5, ~300 000 at length 6, and it
    returns).  The liveness budget therefore grows six-fold per symbol beyond length 4; a diverging request exceeds
    any budget and shows up on the shortest word first, where the budget is small."""
    return 6 ** max(0, n - 4)


def _parse_all(spec: Any, w: Any, start: str, mode: Any, counter: AdmissionCounter) -> tuple:
    """returns (status, trees) with status in ok|budget|timeout|error:<type>"""
    counter.reset()
    scale = budget_scale(len(w))
    counter.budget = ADMISSION_BUDGET * scale
    trees = []
    try:
        with time_limit(min(TIME_BUDGET_S * scale, 1500.0)):
            gen = spec.grammar.parse_forest(w, start=start, mode=mode)
            for t in gen:
                trees.append(t)
                if len(trees) >= FOREST_CAP:
                    gen.close()
                    counter.reset(True)
                    return "cap", trees
    except Budget:
        return "budget", trees
    except Timeout:
        return "timeout", trees
    except RecursionError:
        return "error:RecursionError", trees
    except Exception as e:  # a raised error is an answer (the request returned)
        counter.reset(True)
        return f"error:{type(e).__name__}", trees
    counter.reset(True)
    return "ok", trees


def work(item: tuple) -> dict:
    g, start, maxlen, alphabet, which = item
    if "+" in start:
        return work_two_starts(item)
    fan = g.fan()
    feats = families.features(g)
    res: dict = {"fan": fan, "start": start, "feats": feats, "viol": [], "words": 0, "members": 0,
                 "pref_members": 0, "trees": 0, "max_adm": 0, "budget_hits": 0, "nonmember_words": 0,
                 "skipped_words": 0, "forest_caps": 0, "errors": {}, "ambiguous_words": 0}
    try:
        spec = build(fan, start_symbol=start)
        spec2 = build(fan, start_symbol=start)
    except Exception as e:
        res["spec_error"] = f"{type(e).__name__}: {e}"
        return res
    tc = TreeChecker(g)
    counter = AdmissionCounter(ADMISSION_BUDGET)
    hits = 0
    with counter:
        for w in words(alphabet, maxlen, binary=g.binary):
            if hits >= 2:
                res["skipped_words"] += 1
                continue
            res["words"] += 1
            is_member = WordMatcher(g, w).member(start)
            is_pref = is_member and WordMatcher(g, w, preferred_rx=True).member(start)
            res["members"] += is_member
            res["pref_members"] += is_pref
            res["nonmember_words"] += (not is_member)
            status, trees = _parse_all(spec, w, start, ParsingMode.COMPLETE, counter)
            base = {"grammar": fan, "start": start, "word": repr(w), "feats": feats, "request": "forest"}
            if status in ("budget", "timeout"):
                hits += 1
                res["budget_hits"] += 1
                if "C06" in which:
                    res["viol"].append(("C06", dict(base, kind="nontermination", status=status, derivation_cycle="derivation_cycle" in feats,
                                                   sig="nontermination:" + ",".join(feats))))
                continue
            if status == "cap":
                res["forest_caps"] += 1
            if status.startswith("error"):
                res["errors"][status] = res["errors"].get(status, 0) + 1
            res["trees"] += len(trees)
            res["ambiguous_words"] += len(trees) > 1
            if "C04" in which:
                for t in trees:
                    s = snap(t)
                    why = None
                    h = has_helper_symbols(s)
                    if h:
                        why = f"helper symbol {h} in result"
                    if why is None:
                        why = tc.ok(s, start)
                    if why is None:
                        try:
                            ser = snap_text(s)
                        except ValueError as e:
                            ser = None
                            why = f"reference serialisation fails: {e}"
                        if ser == "" and g.binary:
                            ser = b""
                        if why is None and ser != w:
                            why = f"tree serialises to {ser!r}, input was {w!r}"
                    if why is None:
                        # the tree's own serialisation must equal the input too
                        try:
                            own = bytes(t) if g.binary else str(t)
                        except Exception as e:
                            own = f"<{type(e).__name__}>"
                        if own != w:
                            why = f"str/bytes(tree) = {own!r}, input was {w!r}"
                    if why is not None:
                        res["viol"].append(("C04", dict(base, kind="unsound_tree", why=why, tree=repr(s)[:400],
                                                       sig="unsound:" + ",".join(feats))))
                        break
                if trees and not is_member:
                    res["viol"].append(("C04", dict(base, kind="accepts_nonmember", n_trees=len(trees),
                                                   sig="accepts_nonmember:" + ",".join(feats))))
            if "C05" in which:
                if is_pref and not trees and not status.startswith("error"):
                    # does every preferred derivation need a regex leaf that matches the empty string?
                    needs_empty = not WordMatcher(g, w, preferred_rx=True, nonempty_rx=True).member(start)
                    res["viol"].append(("C05", dict(base, kind="rejects_member", needs_empty_regex_match=needs_empty,
                                                   sig=f"rejects_member:needs_empty_regex_match={needs_empty}")))
                if is_pref and status.startswith("error"):
                    res["viol"].append(("C05", dict(base, kind="error_on_member", status=status,
                                                   sig="error_on_member:" + ",".join(feats))))
            if "C06" in which:
                # prefix mode and first-tree-only requests on a second, independent spec object
                st2, _ = _parse_all(spec2, w, start, ParsingMode.INCOMPLETE, counter)
                if st2 in ("budget", "timeout"):
                    hits += 1
                    res["budget_hits"] += 1
                    res["viol"].append(("C06", dict(base, request="prefix", kind="nontermination", status=st2, derivation_cycle="derivation_cycle" in feats,
                                                   sig="nontermination:" + ",".join(feats))))
        res["max_adm"] = counter.max_seen
    return res


def work_two_starts(item: tuple) -> dict:
    """every word requested from two start symbols, in both orders, on ONE spec object"""
    g, starts, maxlen, alphabet, which = item
    s1, s2 = starts.split("+")
    fan = g.fan()
    feats = families.features(g)
    res: dict = {"fan": fan, "start": starts, "feats": feats, "viol": [], "words": 0, "members": 0, "pref_members": 0, "trees": 0, "max_adm": 0,
                 "budget_hits": 0, "nonmember_words": 0, "skipped_words": 0, "forest_caps": 0, "errors": {}, "ambiguous_words": 0}
    tc = TreeChecker(g)
    counter = AdmissionCounter(ADMISSION_BUDGET)
    with counter:
        for order in ((s1, s2), (s2, s1)):
            try:
                spec = build(fan)
            except Exception as e:
                res["spec_error"] = repr(e)
                return res
            for w in words(alphabet, maxlen):
                for start in order:
                    res["words"] += 1
                    is_member = WordMatcher(g, w).member(start)
                    res["members"] += is_member
                    res["nonmember_words"] += not is_member
                    status, trees = _parse_all(spec, w, start, ParsingMode.COMPLETE, counter)
                    if status in ("budget", "timeout"):
                        res["budget_hits"] += 1
                        continue
                    res["trees"] += len(trees)
                    base = {"grammar": fan, "start": start, "other_start_on_same_object": [x for x in order if x != start][0], "word": repr(w), "feats": feats, "request": "forest"}
                    if "C04" in which:
                        for t in trees:
                            s = snap(t)
                            why = tc.ok(s, start)
                            if why is None and snap_text(s) != w:
                                why = "serialisation differs from the input"
                            if why:
                                res["viol"].append(("C04", dict(base, kind="unsound_tree", why=why, tree=repr(s)[:300], sig="unsound:two_starts")))
                                break
                        if trees and not is_member:
                            res["viol"].append(("C04", dict(base, kind="accepts_nonmember", n_trees=len(trees), sig="accepts_nonmember:two_starts")))
    return res


def sweep(ctx: Ctx, which: set) -> dict:
    items = grammar_items(ctx.tier)
    items = rotate(items, ctx.seed)
    ctx.log(f"parser sweep over {len(items)} grammars for {sorted(which)}")
    tasks = [it + (which,) for it in items]
    results = pmap_tagged(work, tasks, chunk=2)
    for t, r in zip(tasks, results):
        for _, case in r.get("viol", []):
            tag(case, "mc.parser_sweep", "work", t)
    agg = {"grammars": len(results), "words": 0, "members": 0, "pref_members": 0, "trees": 0, "max_adm": 0,
           "budget_hits": 0, "spec_errors": 0, "skipped_words": 0, "forest_caps": 0, "nonmember_words": 0,
           "ambiguous_words": 0, "errors": {}}
    samples = []
    for r in results:
        if "spec_error" in r:
            agg["spec_errors"] += 1
            if agg["spec_errors"] <= 5:
                ctx.notes.append(f"spec rejected: {r['fan']!r}: {r['spec_error']}")
            continue
        for k in ("words", "members", "pref_members", "trees", "budget_hits", "skipped_words", "forest_caps",
                  "nonmember_words", "ambiguous_words"):
            agg[k] += r[k]
        for k, v in r["errors"].items():
            agg["errors"][k] = agg["errors"].get(k, 0) + v
        agg["max_adm"] = max(agg["max_adm"], r["max_adm"])
        for pid, case in r["viol"]:
            if pid == ctx.pid:
                ctx.violation(case)
        if len(samples) < 6 and r["members"]:
            samples.append({"grammar": r["fan"], "start": r["start"], "words": r["words"], "members": r["members"],
                            "trees": r["trees"]})
    agg["samples"] = samples
    return agg


def work_first_tree(item: tuple) -> dict:
    """FIRST-TREE requests (Grammar.parse: what seeds, generator results and `fandango parse` use) on the grammars with a derivation
    cycle, for every member word: some of them return on the pinned tree although the forest request does not (the first tree is handed
    out lazily); the ones that do not are listed, input by input, in known_findings.json. One fresh spec per request."""
    g, start, maxlen, alphabet = item[:4]
    fan = g.fan()
    feats = families.features(g)
    res: dict = {"fan": fan, "start": start, "requests": 0, "returned": 0, "viol": []}
    if "derivation_cycle" not in feats or "+" in start:
        return res
    counter = AdmissionCounter(ADMISSION_BUDGET)
    with counter:
        for w in words(alphabet, min(maxlen, 4), binary=g.binary):
            if not WordMatcher(g, w).member(start):
                continue
            try:
                spec = build(fan, start_symbol=start)
            except Exception:
                return res
            res["requests"] += 1
            counter.reset()
            counter.budget = ADMISSION_BUDGET
            status = "ok"
            try:
                with time_limit(60.0):
                    spec.grammar.parse(w, start=start)
            except Budget:
                status = "budget"
            except Timeout:
                status = "timeout"
            except Exception as e:  # a raised error is an answer
                status = f"error:{type(e).__name__}"
            counter.reset(True)
            if status in ("budget", "timeout"):
                res["viol"].append(("C06", {"grammar": fan, "start": start, "word": repr(w), "feats": feats, "request": "first_tree", "kind": "nontermination",
                                            "status": "budget", "derivation_cycle": True, "case_key": f"{fan}|{start}|{w!r}",
                                            "sig": "nontermination:first_tree:" + ",".join(feats)}))
            else:
                res["returned"] += 1
    return res


def sweep_first_tree(ctx: Ctx) -> dict:
    items = [it for it in grammar_items("quick") if "derivation_cycle" in families.features(it[0]) and "+" not in it[1]]
    results = pmap_tagged(work_first_tree, items, chunk=1)
    agg = {"grammars_with_a_derivation_cycle": len(items), "first_tree_requests": 0, "returned": 0, "did_not_return": 0}
    for r in results:
        agg["first_tree_requests"] += r["requests"]
        agg["returned"] += r["returned"]
        agg["did_not_return"] += len(r["viol"])
        for _, case in r["viol"]:
            ctx.violation(case)
    return agg
