"""Seams that put Fandango's nondeterminism under the explorer's control.

random seam: every library module calls `random.<fn>` through the module object and
exrex uses `from random import choice, randint`, so replacing the attributes on the
`random` module and the two names in `exrex` for the duration of a run owns every random
decision.  Anything else that reaches the PRNG (random.seed, getrandbits, ...) raises:
unowned nondeterminism must be loud.
"""

from __future__ import annotations

import contextlib
import random as _random
from typing import Any, Iterator

from mc.explore import Chooser

_ORIG = {
    k: getattr(_random, k)
    for k in (
        "choice", "randint", "random", "choices", "sample", "shuffle", "randrange",
        "uniform", "getrandbits", "gauss", "seed", "betavariate", "expovariate",
        "triangular", "normalvariate", "randbytes",
    )
}


class RandomSeam:
    def __init__(self, ch: Chooser, allow_seed: bool = True, max_randint: int = 64):
        self.ch = ch
        self.allow_seed = allow_seed
        self.max_randint = max_randint

    # --- replacements
    def choice(self, seq):
        seq = list(seq) if not hasattr(seq, "__getitem__") else seq
        if len(seq) == 0:
            raise IndexError("Cannot choose from an empty sequence")
        return seq[self.ch.pick(len(seq), "choice")]

    def randint(self, a, b):
        n = b - a + 1
        if n <= 0:
            raise ValueError("empty range for randint")
        if n > self.max_randint:
            # huge ranges (random char codes etc.): two-valued abstraction lo/hi
            return a if self.ch.pick(2, "randint*") == 0 else b
        return a + self.ch.pick(n, "randint")

    def randrange(self, start, stop=None, step=1):
        if stop is None:
            start, stop = 0, start
        vals = range(start, stop, step)
        if len(vals) > self.max_randint:
            return vals[0] if self.ch.pick(2, "randrange*") == 0 else vals[-1]
        return vals[self.ch.pick(len(vals), "randrange")]

    def random(self):
        # only comparisons against rates consume it: default "high" (no special event)
        return 0.999999 if self.ch.pick(2, "random") == 0 else 0.0

    def uniform(self, a, b):
        return b if self.ch.pick(2, "uniform") == 0 else a

    def choices(self, population, weights=None, *, cum_weights=None, k=1):
        population = list(population)
        idxs = range(len(population))
        if weights is not None:
            idxs = [i for i in idxs if weights[i] > 0] or list(idxs)
        idxs = list(idxs)
        return [population[idxs[self.ch.pick(len(idxs), "choices")]] for _ in range(k)]

    def sample(self, population, k, *, counts=None):
        pool = list(population)
        out = []
        for _ in range(k):
            out.append(pool.pop(self.ch.pick(len(pool), "sample")))
        return out

    def shuffle(self, x):
        # permutation by successive picks (identity is the default)
        pool = list(x)
        out = []
        while pool:
            out.append(pool.pop(self.ch.pick(len(pool), "shuffle")))
        x[:] = out

    def seed(self, *a, **k):
        if not self.allow_seed:
            raise RuntimeError("random.seed under the random seam")

    def _unowned(self, name):
        def f(*a, **k):
            raise RuntimeError(f"unowned randomness: random.{name}")

        return f


@contextlib.contextmanager
def random_seam(ch: Chooser, **kw: Any) -> Iterator[RandomSeam]:
    import exrex

    seam = RandomSeam(ch, **kw)
    saved_exrex = (exrex.choice, exrex.randint)
    try:
        for name in _ORIG:
            if hasattr(seam, name):
                setattr(_random, name, getattr(seam, name))
            else:
                setattr(_random, name, seam._unowned(name))
        exrex.choice = seam.choice
        exrex.randint = seam.randint
        yield seam
    finally:
        for name, fn in _ORIG.items():
            setattr(_random, name, fn)
        exrex.choice, exrex.randint = saved_exrex


@contextlib.contextmanager
def max_repetitions(n: int) -> Iterator[None]:
    import fandango.language.grammar.nodes as nodes

    old = nodes.MAX_REPETITIONS
    nodes.MAX_REPETITIONS = n
    try:
        yield
    finally:
        nodes.MAX_REPETITIONS = old
