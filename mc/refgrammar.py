"""RefGrammar: a deliberately boring reference model of Fandango grammars.

AST -> .fan text printer (the text is what Fandango reads, so reference and
implementation start from the same source), set-valued matcher iterated to a fixed point
(left recursion / nullable cycles are fine), membership, viable-prefix test, derivation
checking of trees, bounded enumeration of words and of derivation trees.

Positions: text grammars are indexed by character, binary grammars by *bit*
(bytes terminals only match at byte-aligned positions).
"""

from __future__ import annotations

import itertools
import re
from dataclasses import dataclass, field
from typing import Any, Callable, Iterable, Iterator, Optional, Union

import regex as _regex  # partial matching (third-party module already required by fandango)

from mc.common import InternalError


# ----------------------------------------------------------------------------- AST
@dataclass(frozen=True)
class Lit:
    v: Union[str, bytes]


@dataclass(frozen=True)
class Bit:
    v: int


@dataclass(frozen=True)
class Rx:
    pat: str
    is_bytes: bool = False


@dataclass(frozen=True)
class NT:
    name: str  # "<x>"
    sender: Optional[str] = None
    recipient: Optional[str] = None


@dataclass(frozen=True)
class Seq:
    items: tuple


@dataclass(frozen=True)
class Alt:
    items: tuple


@dataclass(frozen=True)
class Opt:
    x: Any


@dataclass(frozen=True)
class Star:
    x: Any


@dataclass(frozen=True)
class Plus:
    x: Any


@dataclass(frozen=True)
class Rep:
    x: Any
    lo: int
    hi: Optional[int]  # None = open ended {n,}
    expr: Optional[str] = None  # computed repetition {expr}: bounds unknown to the reference


Node = Any


def _atom(n: Node) -> bool:
    return isinstance(n, (Lit, Bit, Rx, NT))


def fan_lit(v: Union[str, bytes]) -> str:
    if isinstance(v, bytes):
        return "b'" + "".join(f"\\x{b:02x}" for b in v) + "'"
    out = []
    for c in v:
        if c == "\\":
            out.append("\\\\")
        elif c == '"':
            out.append('\\"')
        elif c == "\n":
            out.append("\\n")
        elif c == "\t":
            out.append("\\t")
        elif 32 <= ord(c) < 127:
            out.append(c)
        elif ord(c) < 256:
            out.append(f"\\x{ord(c):02x}")
        else:
            out.append(f"\\u{ord(c):04x}")
    return '"' + "".join(out) + '"'


def to_fan(n: Node, top: bool = True) -> str:
    """Print a rule body in .fan syntax (fully parenthesised where precedence needs it)."""
    if isinstance(n, Lit):
        return fan_lit(n.v)
    if isinstance(n, Bit):
        return str(n.v)
    if isinstance(n, Rx):
        q = '"' if "'" in n.pat else "'"
        if "'" in n.pat and '"' in n.pat:
            q = "'''" if not n.pat.endswith("'") else '"""'   # both quote kinds: a triple-quoted raw string
        return ("rb" if n.is_bytes else "r") + q + n.pat + q
    if isinstance(n, NT):
        if n.sender is not None:
            if n.recipient is not None:
                return f"<{n.sender}:{n.recipient}:{n.name[1:-1]}>"
            return f"<{n.sender}:{n.name[1:-1]}>"
        return n.name
    if isinstance(n, Seq):
        s = " ".join(to_fan(x, False) if not isinstance(x, (Alt, Seq)) else "(" + to_fan(x) + ")" for x in n.items)
        return s
    if isinstance(n, Alt):
        s = " | ".join(to_fan(x, False) if not isinstance(x, Alt) else "(" + to_fan(x) + ")" for x in n.items)
        return s if top else "(" + s + ")"

    def post(x: Node) -> str:
        return to_fan(x, False) if _atom(x) else "(" + to_fan(x) + ")"

    if isinstance(n, Opt):
        return post(n.x) + "?"
    if isinstance(n, Star):
        return post(n.x) + "*"
    if isinstance(n, Plus):
        return post(n.x) + "+"
    if isinstance(n, Rep):
        if n.expr is not None:
            return post(n.x) + "{" + n.expr + "}"
        if n.hi is None:
            return post(n.x) + "{" + f"{n.lo}," + "}"
        if n.hi == n.lo:
            return post(n.x) + "{" + f"{n.lo}" + "}"
        return post(n.x) + "{" + f"{n.lo},{n.hi}" + "}"
    raise InternalError(f"unknown node {n!r}")


@dataclass
class RefGrammar:
    rules: dict  # name -> Node, insertion ordered
    generators: dict = field(default_factory=dict)  # name -> expression text
    prelude: str = ""
    constraints: tuple = ()
    binary: bool = False

    def fan(self) -> str:
        lines = []
        if self.prelude:
            lines.append(self.prelude.rstrip("\n"))
        for name, body in self.rules.items():
            s = f"{name} ::= {to_fan(body)}"
            if name in self.generators:
                s += " := " + self.generators[name]
            lines.append(s)
        for c in self.constraints:
            lines.append("where " + c)
        return "\n".join(lines) + "\n"

    # ------------------------------------------------------------------ helpers
    def alphabet(self) -> list:
        """Characters (text) or byte values (binary) mentioned by literals."""
        acc: set = set()

        def walk(n: Node) -> None:
            if isinstance(n, Lit):
                if isinstance(n.v, str):
                    acc.update(n.v if not self.binary else n.v.encode("latin-1"))
                else:
                    acc.update(n.v)
            elif isinstance(n, (Seq, Alt)):
                for x in n.items:
                    walk(x)
            elif isinstance(n, (Opt, Star, Plus, Rep)):
                walk(n.x)

        for b in self.rules.values():
            walk(b)
        return sorted(acc)

    def productive(self) -> bool:
        """Every nonterminal derives at least one finite word (needed by viable())."""
        prod: set = set()
        changed = True

        def ok(n: Node) -> bool:
            if isinstance(n, (Lit, Bit, Rx)):
                return True
            if isinstance(n, NT):
                return n.name in prod
            if isinstance(n, Seq):
                return all(ok(x) for x in n.items)
            if isinstance(n, Alt):
                return any(ok(x) for x in n.items)
            if isinstance(n, (Opt, Star)):
                return True
            if isinstance(n, Plus):
                return ok(n.x)
            if isinstance(n, Rep):
                return n.lo == 0 or ok(n.x)
            raise InternalError(repr(n))

        while changed:
            changed = False
            for name, b in self.rules.items():
                if name not in prod and ok(b):
                    prod.add(name)
                    changed = True
        return len(prod) == len(self.rules)


# ----------------------------------------------------------------------------- matcher

_RX_CACHE: dict = {}


def _rx(pat: Union[str, bytes]):
    r = _RX_CACHE.get(pat)
    if r is None:
        r = _RX_CACHE[pat] = re.compile(pat)
    return r


class WordMatcher:
    """ends(node, i): set of positions j such that node derives w[i:j]."""

    def __init__(self, g: RefGrammar, w: Union[str, bytes], preferred_rx: bool = False, open_cap: Optional[int] = None,
                 nonempty_rx: bool = False):
        self.nonempty_rx = nonempty_rx
        self.g = g
        self.w = w
        self.binary = isinstance(w, bytes)
        self.n = len(w) * 8 if self.binary else len(w)
        self.preferred_rx = preferred_rx
        self.open_cap = open_cap
        self.T: dict = {}
        self._stable = False

    # --- leaves
    def _lit(self, v: Union[str, bytes], i: int) -> set:
        if self.binary:
            if i % 8:
                return set()
            b = v if isinstance(v, bytes) else v.encode("utf-8")
            k = i // 8
            return {i + 8 * len(b)} if self.w[k : k + len(b)] == b else set()
        if isinstance(v, bytes):
            v = v.decode("latin-1")
        return {i + len(v)} if self.w.startswith(v, i) else set()

    def _bit(self, v: int, i: int) -> set:
        if not self.binary or i >= self.n:
            return set()
        byte = self.w[i // 8]
        return {i + 1} if ((byte >> (7 - i % 8)) & 1) == v else set()

    def _rxends(self, n: Rx, i: int) -> set:
        if self.binary:
            if i % 8:
                return set()
            rest = self.w[i // 8 :]
            pat: Union[str, bytes] = n.pat.encode("latin-1")
            unit = 8
        else:
            rest = self.w[i:]
            pat = n.pat
            unit = 1
        r = _rx(pat)
        if self.preferred_rx:
            m = r.match(rest)
            out = {i + unit * len(m.group(0))} if m else set()
        else:
            out = {i + unit * k for k in range(len(rest) + 1) if r.fullmatch(rest[:k])}
        if self.nonempty_rx:
            out.discard(i)
        return out

    # --- composite
    def ends(self, n: Node, i: int) -> set:
        if isinstance(n, Lit):
            return self._lit(n.v, i)
        if isinstance(n, Bit):
            return self._bit(n.v, i)
        if isinstance(n, Rx):
            return self._rxends(n, i)
        if isinstance(n, NT):
            key = (n.name, i)
            if key not in self.T:
                self.T[key] = set()
                self._stable = False
            return self.T[key]
        if isinstance(n, Seq):
            cur = {i}
            for x in n.items:
                nxt: set = set()
                for p in cur:
                    nxt |= self.ends(x, p)
                cur = nxt
                if not cur:
                    break
            return cur
        if isinstance(n, Alt):
            out: set = set()
            for x in n.items:
                out |= self.ends(x, i)
            return out
        if isinstance(n, Opt):
            return {i} | self.ends(n.x, i)
        if isinstance(n, Star):
            return self._iter(n.x, i, 0, self.open_cap)
        if isinstance(n, Plus):
            return self._iter(n.x, i, 1, self.open_cap)
        if isinstance(n, Rep):
            if n.expr is not None:
                return self._iter(n.x, i, 0, None)  # computed bound: any count (bounds are a constraint)
            return self._iter(n.x, i, n.lo, n.hi if n.hi is not None else self.open_cap)
        raise InternalError(repr(n))

    def _iter(self, x: Node, i: int, lo: int, hi: Optional[int]) -> set:
        # R_k = positions after exactly k iterations.  Positions never decrease, so a path
        # of more than n+1 steps repeats a position (a self loop); hence R_k is constant
        # for k >= n+1 and iterating up to max(lo, n+1)+1 covers every k.
        limit = max(lo, self.n + 1) + 1
        if hi is not None:
            limit = min(limit, hi)
        cur = {i}
        out = set(cur) if lo == 0 else set()
        for k in range(1, limit + 1):
            nxt: set = set()
            for p in cur:
                nxt |= self.ends(x, p)
            if k >= lo:
                out |= nxt
            if not nxt:
                break
            cur = nxt
        return out

    def solve(self) -> None:
        # Kleene iteration over all demanded (nonterminal, position) pairs
        for _ in range(10000):
            self._stable = True
            for (name, i) in list(self.T.keys()):
                new = self.ends(self.g.rules[name], i)
                if new != self.T[(name, i)]:
                    if not new >= self.T[(name, i)]:
                        raise InternalError("non-monotone reference matcher")
                    self.T[(name, i)] = set(new)
                    self._stable = False
            if self._stable:
                return
        raise InternalError("reference matcher did not converge")

    def member(self, start: str = "<start>") -> bool:
        self.ends(NT(start), 0)
        self.solve()
        return self.n in self.T[(start, 0)]


def member(g: RefGrammar, w: Union[str, bytes], start: str = "<start>", preferred_rx: bool = False) -> bool:
    return WordMatcher(g, w, preferred_rx=preferred_rx).member(start)


# ----------------------------------------------------------------------------- viable prefix


class PrefixMatcher:
    """viable(w): does some extension w.u (u possibly empty) belong to L(start)?
    Requires a productive grammar.  Text and byte-aligned binary grammars."""

    def __init__(self, g: RefGrammar, w: Union[str, bytes]):
        if not g.productive():
            raise InternalError("viable() needs a productive grammar")
        self.g = g
        self.w = w
        self.wm = WordMatcher(g, w)
        self.n = self.wm.n
        self.P: dict = {}
        self._stable = False

    def p(self, n: Node, i: int) -> bool:
        if i >= self.n:
            return i == self.n
        wm = self.wm
        if isinstance(n, Lit):
            if wm.binary:
                if i % 8:
                    return False
                b = n.v if isinstance(n.v, bytes) else n.v.encode("utf-8")
                rest = self.w[i // 8 :]
                return b.startswith(rest)
            v = n.v if isinstance(n.v, str) else n.v.decode("latin-1")
            return v.startswith(self.w[i:])
        if isinstance(n, Bit):
            return False  # a single bit cannot extend beyond the end unless i == n
        if isinstance(n, Rx):
            if wm.binary:
                if i % 8:
                    return False
                m = _regex.fullmatch(n.pat.encode("latin-1"), self.w[i // 8 :], partial=True)
            else:
                m = _regex.fullmatch(n.pat, self.w[i:], partial=True)
            return m is not None
        if isinstance(n, NT):
            key = (n.name, i)
            if key not in self.P:
                self.P[key] = False
                self._stable = False
            return self.P[key]
        if isinstance(n, Seq):
            cur = {i}
            for x in n.items:
                nxt: set = set()
                for q in cur:
                    if self.p(x, q):
                        return True
                    nxt |= wm.ends(x, q)
                cur = nxt
                if not cur:
                    return False
            return self.n in cur
        if isinstance(n, Alt):
            return any(self.p(x, i) for x in n.items)
        if isinstance(n, Opt):
            return self.p(n.x, i)
        if isinstance(n, (Star, Plus, Rep)):
            if isinstance(n, Star):
                lo, hi = 0, None
            elif isinstance(n, Plus):
                lo, hi = 1, None
            else:
                lo, hi = (0, None) if n.expr is not None else (n.lo, n.hi)
            limit = max(lo, self.n + 1) + 1
            if hi is not None:
                limit = min(limit, hi)
            cur = {i}
            for k in range(1, limit + 1):
                nxt = set()
                for q in cur:
                    if self.p(n.x, q):
                        return True
                    nxt |= wm.ends(n.x, q)
                if k >= lo and self.n in nxt:
                    return True
                if not nxt:
                    return False
                cur = nxt
            return False
        raise InternalError(repr(n))

    def viable(self, start: str = "<start>") -> bool:
        self.p(NT(start), 0)
        self.wm.ends(NT(start), 0)
        for _ in range(10000):
            self.wm.solve()
            self._stable = True
            for (name, i) in list(self.P.keys()):
                new = self.p(self.g.rules[name], i)
                if new and not self.P[(name, i)]:
                    self.P[(name, i)] = True
                    self._stable = False
            if self._stable and self.wm._stable:
                break
        else:
            raise InternalError("prefix matcher did not converge")
        return self.P[(start, 0)] if self.n > 0 else True


def viable(g: RefGrammar, w: Union[str, bytes], start: str = "<start>") -> bool:
    return PrefixMatcher(g, w).viable(start)


# ----------------------------------------------------------------------------- derivation check on trees
# snapshot of a tree: ("N", name, (children...)) | ("T", value) where value is str|bytes|int


class TreeChecker:
    def __init__(self, g: RefGrammar, open_cap: Optional[int] = None, rep_bounds: Optional[Callable] = None,
                 preferred_word: Optional[str] = None):
        """preferred_word (text grammars): additionally require every regex leaf to be exactly
        the match re.match prefers at the leaf's offset in that word."""
        self.g = g
        self.open_cap = open_cap
        self.rep_bounds = rep_bounds
        self.preferred_word = preferred_word
        self._offs: dict = {}

    def ok(self, t: tuple, start: Optional[str] = None) -> Optional[str]:
        """None if t is a derivation (of `start` if given); else a reason string."""
        if t[0] != "N":
            return f"root is a leaf {t!r}"
        if start is not None and t[1] != start:
            return f"root symbol {t[1]} != requested start {start}"
        return self._node(t, 0)

    @staticmethod
    def _width(t: tuple) -> int:
        if t[0] == "T":
            return len(t[1]) if isinstance(t[1], (str, bytes)) else 0
        return sum(TreeChecker._width(k) for k in t[2])

    def _node(self, t: tuple, off: int = 0) -> Optional[str]:
        name, kids = t[1], t[2]
        offs = []
        o = off
        for k in kids:
            offs.append(o)
            o += self._width(k)
        self._cur_offs = offs
        if name not in self.g.rules:
            return f"symbol {name} is not a grammar symbol"
        body = self.g.rules[name]
        if len(kids) not in self._ends(body, kids, 0):
            return f"children of {name} {[_sym(k) for k in kids]} do not spell an expansion of {to_fan(body)}"
        for k, o in zip(kids, offs):
            if k[0] == "N":
                r = self._node(k, o)
                if r:
                    return r
        return None

    def _ends(self, n: Node, kids: tuple, i: int) -> set:
        if isinstance(n, (Lit, Bit, Rx)):
            if i >= len(kids) or kids[i][0] != "T":
                return set()
            v = kids[i][1]
            if isinstance(n, Lit):
                # a text literal parsed from a bytes input is carried as bytes (same octets)
                if isinstance(v, (str, bytes)) and type(v) is not type(n.v):
                    a = v if isinstance(v, bytes) else v.encode("utf-8")
                    b = n.v if isinstance(n.v, bytes) else n.v.encode("utf-8")
                    return {i + 1} if a == b else set()
                return {i + 1} if (type(v) is type(n.v) and v == n.v) else set()
            if isinstance(n, Bit):
                return {i + 1} if (type(v) is int and v == n.v) else set()
            if n.is_bytes:
                return {i + 1} if isinstance(v, bytes) and _rx(n.pat.encode("latin-1")).fullmatch(v) else set()
            if not (isinstance(v, str) and _rx(n.pat).fullmatch(v)):
                return set()
            if self.preferred_word is not None:
                m = _rx(n.pat).match(self.preferred_word, self._cur_offs[i])
                if m is None or m.group(0) != v:
                    return set()
            return {i + 1}
        if isinstance(n, NT):
            return {i + 1} if i < len(kids) and kids[i][0] == "N" and kids[i][1] == n.name else set()
        if isinstance(n, Seq):
            cur = {i}
            for x in n.items:
                nxt: set = set()
                for p in cur:
                    nxt |= self._ends(x, kids, p)
                cur = nxt
                if not cur:
                    break
            return cur
        if isinstance(n, Alt):
            out: set = set()
            for x in n.items:
                out |= self._ends(x, kids, i)
            return out
        if isinstance(n, Opt):
            return {i} | self._ends(n.x, kids, i)
        if isinstance(n, Star):
            lo, hi = 0, self.open_cap
        elif isinstance(n, Plus):
            lo, hi = 1, self.open_cap
        elif isinstance(n, Rep):
            if n.expr is not None:
                lo, hi = 0, None
            else:
                lo, hi = n.lo, (n.hi if n.hi is not None else self.open_cap)
        else:
            raise InternalError(repr(n))
        limit = max(lo, len(kids) + 1) + 1
        if hi is not None:
            limit = min(limit, hi)
        cur = {i}
        out = set(cur) if lo == 0 else set()
        for k in range(1, limit + 1):
            nxt = set()
            for p in cur:
                nxt |= self._ends(n.x, kids, p)
            if k >= lo:
                out |= nxt
            if not nxt:
                break
            cur = nxt
        return out


def _sym(k: tuple) -> str:
    return k[1] if k[0] == "N" else repr(k[1])


def snap_value(t: tuple) -> list:
    """In-order leaf values of a snapshot."""
    if t[0] == "T":
        return [t[1]]
    out: list = []
    for k in t[2]:
        out.extend(snap_value(k))
    return out


def snap_text(t: tuple) -> Union[str, bytes]:
    """Reference serialisation: text if all leaves are str, else bytes (bits in groups of 8,
    text UTF-8 encoded)."""
    leaves = snap_value(t)
    if all(isinstance(v, str) for v in leaves):
        return "".join(leaves)
    out = bytearray()
    bits: list = []
    for v in leaves:
        if isinstance(v, int):
            bits.append(v)
            continue
        if bits:
            if len(bits) % 8:
                raise ValueError("bytes needed at a non byte-aligned position")
            out += _bits_to_bytes(bits)
            bits = []
        out += v if isinstance(v, bytes) else v.encode("utf-8")
    if bits:
        if len(bits) % 8:
            raise ValueError("trailing bits not a multiple of 8")
        out += _bits_to_bytes(bits)
    return bytes(out)


def _bits_to_bytes(bits: list) -> bytes:
    return bytes(int("".join(map(str, bits[i : i + 8])), 2) for i in range(0, len(bits), 8))


# ----------------------------------------------------------------------------- enumeration


def words(alphabet: Iterable, maxlen: int, binary: bool = False) -> Iterator[Union[str, bytes]]:
    alphabet = list(alphabet)
    for L in range(maxlen + 1):
        for tup in itertools.product(alphabet, repeat=L):
            yield bytes(tup) if binary else "".join(tup)


def enum_trees(g: RefGrammar, start: str, max_nodes: int, rx_strings: Optional[list] = None, open_cap: int = 3) -> list:
    """All derivation-tree snapshots of `start` with at most max_nodes nodes.  Regex leaves
    take every string of rx_strings they fully match.  Open-ended repetitions unroll up
    to open_cap iterations."""
    rx_strings = rx_strings if rx_strings is not None else ["", "a", "b", "aa", "ab"]

    def seqs(n: Node, budget: int) -> Iterator[tuple]:
        """yield (children tuple, cost)"""
        if budget < 0:
            return
        if isinstance(n, Lit):
            if budget >= 1:
                yield (("T", n.v),), 1
        elif isinstance(n, Bit):
            if budget >= 1:
                yield (("T", n.v),), 1
        elif isinstance(n, Rx):
            if budget >= 1:
                for s in rx_strings:
                    v = s.encode("latin-1") if n.is_bytes else s
                    pat = n.pat.encode("latin-1") if n.is_bytes else n.pat
                    if _rx(pat).fullmatch(v):
                        yield (("T", v),), 1
        elif isinstance(n, NT):
            for t, c in trees(n.name, budget):
                yield (t,), c
        elif isinstance(n, Seq):
            def rec(idx: int, b: int) -> Iterator[tuple]:
                if idx == len(n.items):
                    yield (), 0
                    return
                for head, c in seqs(n.items[idx], b):
                    for tail, c2 in rec(idx + 1, b - c):
                        yield head + tail, c + c2
            yield from rec(0, budget)
        elif isinstance(n, Alt):
            for x in n.items:
                yield from seqs(x, budget)
        elif isinstance(n, (Opt, Star, Plus, Rep)):
            if isinstance(n, Opt):
                lo, hi = 0, 1
            elif isinstance(n, Star):
                lo, hi = 0, open_cap
            elif isinstance(n, Plus):
                lo, hi = 1, open_cap
            else:
                lo, hi = n.lo, (n.hi if n.hi is not None else max(open_cap, n.lo))

            def rep(k: int, b: int) -> Iterator[tuple]:
                if k >= lo:
                    yield (), 0
                if k < hi:
                    for head, c in seqs(n.x, b):
                        if c == 0 and k >= lo:
                            continue  # empty iteration beyond the minimum adds nothing
                        for tail, c2 in rep(k + 1, b - c):
                            yield head + tail, c + c2
            yield from rep(0, budget)
        else:
            raise InternalError(repr(n))

    def trees(name: str, budget: int) -> Iterator[tuple]:
        if budget < 1:
            return
        for kids, c in seqs(g.rules[name], budget - 1):
            yield ("N", name, kids), c + 1

    seen = set()
    out = []
    for t, _ in trees(start, max_nodes):
        if t not in seen:
            seen.add(t)
            out.append(t)
    return out
