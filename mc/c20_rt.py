"""Runtime shared between the C20 harness and the party classes defined inside the specs it
builds (the spec's Python part does `import mc.c20_rt as RT`).

Owns, for one execution: the virtual clock, the pending remote deliveries, the log of what
Fandango transmitted and of what the peers delivered, and the scheduling points at which the
explorer decides how many pending deliveries happen before the main loop's next step.
"""
from __future__ import annotations

from typing import Any, Optional

from mc.explore import Chooser, Horizon


class Livelock(Exception):
    pass


class State:
    def __init__(self) -> None:
        self.reset(Chooser(), {}, [])

    def reset(self, chooser: Chooser, script: dict, early: list) -> None:
        self.ch = chooser
        self.script = script          # text of a message sent by Fandango -> list of (peer, recipient party, reply data)
        self.now = 1000.0
        self.sent: list = []          # (sender party, recipient, text) in transmission order
        self.pending: list = list(early)  # [peer, recipient, remaining data] in arrival order
        self.delivered: dict = {}     # peer -> concatenation of everything delivered so far
        self.io: Any = None
        self.sleeps = 0
        self.points = 0
        self.active = True

    # ------------------------------------------------------------ peers
    def on_send(self, party: str, message: Any, recipient: Optional[str]) -> None:
        text = bytes(message) if message.should_be_serialized_to_bytes() else str(message)
        self.sent.append((party, recipient, text))
        for (peer, rcpt, data) in self.script.get(text, []):
            self.pending.append([peer, rcpt, data])

    def pending_units(self) -> int:
        return sum(len(p[2]) for p in self.pending)

    def deliver(self, n: int) -> None:
        """deliver the next n units (characters / bytes) of pending remote data, in order"""
        while n > 0 and self.pending:
            # each peer is its own connection: order is fixed per peer, the explorer decides whose next unit arrives
            # when several peers have data under way (default: the peer that sent first)
            heads, seen_peers = [], set()
            for i, p in enumerate(self.pending):
                if p[0] not in seen_peers:
                    seen_peers.add(p[0])
                    heads.append(i)
            i = heads[self.ch.pick(len(heads), "which_peer")] if len(heads) > 1 else heads[0]
            peer, rcpt, data = self.pending[i]
            unit = data[:1]
            self.pending[i][2] = data[1:]
            if not self.pending[i][2]:
                self.pending.pop(i)
            self.delivered[peer] = self.delivered.get(peer, data[:0]) + unit
            self.io.parties[rcpt].receive(unit, peer)
            n -= 1

    # ------------------------------------------------------------ scheduling points
    def access_point(self, label: str) -> None:
        """before a lock-protected buffer access of the main loop"""
        if not self.active:
            return
        k = self.pending_units()
        self.points += 1
        if k == 0:
            return
        a = self.ch.pick(k + 1, "access:" + label)   # default 0: everything pending arrives first
        self.deliver(k - a)

    def sleep(self, d: float) -> None:
        if not self.active:
            return
        self.sleeps += 1
        if self.sleeps > 4000:
            raise Livelock("more than 4000 polls")
        k = self.pending_units()
        if k == 0:
            # nothing can ever arrive: only the timeout can happen next
            self.now += 30.0
            return
        # deliver j >= 1 units now (default: all), or withhold everything until the timeout expires
        a = self.ch.pick(k + 1, "sleep")
        if a == k:
            self.now += 30.0
        else:
            self.now += d
            self.deliver(k - a)

    def time(self) -> float:
        return self.now


RT = State()


def on_send(party: str, message: Any, recipient: Optional[str]) -> None:
    RT.on_send(party, message, recipient)


class ClockShim:
    """stands in for the `time` module inside algorithm.py / packetparser.py"""

    @staticmethod
    def time() -> float:
        return RT.time()

    @staticmethod
    def sleep(d: float) -> None:
        RT.sleep(d)
