"""RefConstraint: the documented selector / quantifier semantics, written directly from
docs/Paths.md and docs/Constraints.md.

A constraint is built from this module's own AST; the AST prints the .fan constraint text
(read by the real front end) and evaluates the reference verdict on a DerivationTree using
only .symbol / .children of the nodes plus CPython's eval for the Python expression.

Semantics:
  * a symbol occurrence yields its list of matches: <A> all occurrences in the tree,
    S.<B> direct children named <B> of each match of S, S..<B> descendants (children, or
    descendants of children) named <B>, S[i] the i-th child, S[i:j] a slice value;
  * an atomic formula (a comparison or any other Python expression) holds iff the
    expression is truthy for EVERY combination of matches of the occurrences it mentions;
    no match for some occurrence = nothing to violate = holds; a combination whose
    evaluation raises makes it fail;
  * *S is the list of all matches; len(*S) and |S| their number;
  * and / or combine sub-formula verdicts; any/all(F for x in *S) and the legacy
    exists/forall <e> in S: F quantify over the matches of S, binding x (a Python name) or
    <e> (a symbol that then denotes exactly the bound node).
"""
from __future__ import annotations

import itertools
from dataclasses import dataclass
from typing import Any, Optional


# ----------------------------------------------------------------------------- selectors
@dataclass(frozen=True)
class Sym:
    name: str  # "<a>"


@dataclass(frozen=True)
class Var:
    name: str  # python identifier bound by any()/all()


@dataclass(frozen=True)
class Child:
    base: Any
    name: str


@dataclass(frozen=True)
class Desc:
    base: Any
    name: str


@dataclass(frozen=True)
class Idx:
    base: Any
    i: int


@dataclass(frozen=True)
class Slc:
    base: Any
    lo: Optional[int]
    hi: Optional[int]


def sel_text(s: Any) -> str:
    if isinstance(s, Sym):
        return s.name
    if isinstance(s, Var):
        return s.name
    if isinstance(s, Child):
        return f"{sel_text(s.base)}.{s.name}"
    if isinstance(s, Desc):
        return f"{sel_text(s.base)}..{s.name}"
    if isinstance(s, Idx):
        return f"{sel_text(s.base)}[{s.i}]"
    if isinstance(s, Slc):
        return f"{sel_text(s.base)}[{'' if s.lo is None else s.lo}:{'' if s.hi is None else s.hi}]"
    raise TypeError(s)


class SelectorRaises(Exception):
    pass


def _name(t: Any) -> Optional[str]:
    s = t.symbol
    return s.name() if s.is_non_terminal else None


def _all_occurrences(t: Any, name: str, include_self: bool) -> list:
    out = []
    if include_self and _name(t) == name:
        out.append(t)
    for c in t.children:
        out.extend(_all_occurrences(c, name, True))
    return out


def matches(s: Any, tree: Any, env: dict) -> list:
    """list of matched nodes / values; env maps legacy-bound symbols and python vars to nodes
    (env["__descself__"] models the defect that S..<B> also matches the base node itself)"""
    if isinstance(s, Sym):
        if s.name in env:
            return [env[s.name]]
        return _all_occurrences(tree, s.name, True)
    if isinstance(s, Var):
        return [env[s.name]]
    if isinstance(s, Child):
        return [c for m in matches(s.base, tree, env) for c in m.children if _name(c) == s.name]
    if isinstance(s, Desc):
        return [d for m in matches(s.base, tree, env) for d in _all_occurrences(m, s.name, bool(env.get("__descself__")))]
    if isinstance(s, Idx):
        out = []
        for m in matches(s.base, tree, env):
            kids = list(m.children)
            if not (-len(kids) <= s.i < len(kids)):
                raise SelectorRaises(f"index {s.i} out of range")
            out.append(kids[s.i])
        return out
    if isinstance(s, Slc):
        return [m[s.lo : s.hi] for m in matches(s.base, tree, env)]
    raise TypeError(s)


# ----------------------------------------------------------------------------- formulas
@dataclass(frozen=True)
class Atom:
    """template: Python text with {0},{1}.. for selector occurrences, {s0},{s1}.. for star
    lists (*S), {n0}.. for len(*S), {b0}.. for |S|.  Bound python variables appear by name."""
    template: str
    sels: tuple = ()
    stars: tuple = ()
    lens: tuple = ()
    bars: tuple = ()
    pyvars: tuple = ()  # names of bound python variables used directly in the template
    cmp: bool = False  # top level is `expr CMP expr` (becomes a ComparisonConstraint)
    misparse: Optional[str] = None  # the template as Fandango's constraint grammar reads it, if different


@dataclass(frozen=True)
class And:
    a: Any
    b: Any


@dataclass(frozen=True)
class Or:
    a: Any
    b: Any


@dataclass(frozen=True)
class Bare:
    """f printed without the parentheses that text() otherwise puts around a nested and/or:
    `all(A and B for x in *S)` is a constraint-level conjunction, `all((A and B) for ...)` one
    Python expression.  Same meaning."""
    f: Any


@dataclass(frozen=True)
class Quant:
    kind: str  # any | all | exists | forall
    var: str  # python identifier, or "<e>" for the legacy forms
    sel: Any
    body: Any


def text(f: Any, top: bool = True) -> str:
    if isinstance(f, Bare):
        inner = f.f
        if isinstance(inner, And):
            return f"{text(inner.a, False)} and {text(inner.b, False)}"
        if isinstance(inner, Or):
            return f"{text(inner.a, False)} or {text(inner.b, False)}"
        return text(inner, top)
    if isinstance(f, Atom):
        d = {}
        for i, s in enumerate(f.sels):
            d[str(i)] = sel_text(s)
        for i, s in enumerate(f.stars):
            d[f"s{i}"] = "*" + sel_text(s)
        for i, s in enumerate(f.lens):
            d[f"n{i}"] = f"len(*{sel_text(s)})"
        for i, s in enumerate(f.bars):
            d[f"b{i}"] = f"|{sel_text(s)}|"
        t = f.template
        for k, v in d.items():
            t = t.replace("{" + k + "}", v)
        return t
    if isinstance(f, And):
        return f"({text(f.a, False)} and {text(f.b, False)})" if not top else f"{text(f.a, False)} and {text(f.b, False)}"
    if isinstance(f, Or):
        return f"({text(f.a, False)} or {text(f.b, False)})"
    if isinstance(f, Quant):
        if f.kind in ("any", "all"):
            return f"{f.kind}({text(f.body, False)} for {f.var} in *{sel_text(f.sel)})"
        return f"{f.kind} {f.var} in {sel_text(f.sel)}: {text(f.body, True)}"
    raise TypeError(f)


def holds(f: Any, tree: Any, env: Optional[dict] = None, variant: Any = ()) -> bool:
    """variant "" is the reference semantics.  The other variants model one known defect
    each and are only used to *identify* a known finding, never to excuse anything else:
    "skipraise": a comparison skips combinations whose evaluation raises;
    "misparse":  `not X == Y` is read as `(not X) == Y`;
    "descself":  S..<B> also matches the base node itself.
    `variant` is a collection of these flags."""
    env = dict(env or {})
    if "descself" in variant:
        env["__descself__"] = True
    if isinstance(f, Bare):
        return holds(f.f, tree, env, variant)
    if isinstance(f, Atom):
        return _atom(f, tree, env, variant)
    if isinstance(f, And):
        return holds(f.a, tree, env, variant) and holds(f.b, tree, env, variant)
    if isinstance(f, Or):
        return holds(f.a, tree, env, variant) or holds(f.b, tree, env, variant)
    if isinstance(f, Quant):
        try:
            ms = matches(f.sel, tree, env)
        except SelectorRaises:
            return False
        results = (holds(f.body, tree, {**env, f.var: m}, variant) for m in ms)
        return any(results) if f.kind in ("any", "exists") else all(results)
    raise TypeError(f)


def _atom(f: Atom, tree: Any, env: dict, variant: Any = ()) -> bool:
    try:
        lists = [matches(s, tree, env) for s in f.sels]
        fixed = {}
        for i, s in enumerate(f.stars):
            fixed[f"S{i}"] = list(matches(s, tree, env))
        for i, s in enumerate(f.lens):
            fixed[f"N{i}"] = len(matches(s, tree, env))
        for i, s in enumerate(f.bars):
            fixed[f"B{i}"] = len(matches(s, tree, env))
    except SelectorRaises:
        return False
    t = f.misparse if ("misparse" in variant and f.misparse) else f.template
    for i in range(len(f.sels)):
        t = t.replace("{" + str(i) + "}", f"V{i}")
    for i in range(len(f.stars)):
        t = t.replace("{s" + str(i) + "}", f"S{i}")
    for i in range(len(f.lens)):
        t = t.replace("{n" + str(i) + "}", f"N{i}")
    for i in range(len(f.bars)):
        t = t.replace("{b" + str(i) + "}", f"B{i}")
    code = compile(t, "<ref>", "eval")
    pyenv = {k: v for k, v in env.items() if not k.startswith("<") and not k.startswith("__")}
    for combo in itertools.product(*lists):
        local = dict(fixed)
        local.update(pyenv)
        for i, m in enumerate(combo):
            local[f"V{i}"] = m
        try:
            if not eval(code, {"__builtins__": __builtins__}, local):
                return False
        except Exception:
            if "skipraise" in variant and f.cmp:
                continue
            return False
    return True


def _unused() -> None:
    return None


def uses_not_comparison(f: Any) -> bool:
    """`not X == Y` at formula level: Fandango's grammar reads it as (not X) == Y"""
    if isinstance(f, Atom):
        t = f.template.strip()
        return t.startswith("not ") and not t.startswith("not (")
    if isinstance(f, (And, Or)):
        return uses_not_comparison(f.a) or uses_not_comparison(f.b)
    if isinstance(f, Quant):
        return uses_not_comparison(f.body)
    return False


def atoms_of(f: Any) -> list:
    if isinstance(f, Atom):
        return [f]
    if isinstance(f, (And, Or)):
        return atoms_of(f.a) + atoms_of(f.b)
    if isinstance(f, Quant):
        return atoms_of(f.body)
    return []


def from_snapshot(s: tuple) -> Any:
    """build a real DerivationTree from a RefGrammar snapshot (no parser involved)"""
    from fandango.language.symbols import NonTerminal, Terminal
    from fandango.language.tree import DerivationTree

    if s[0] == "T":
        return DerivationTree(Terminal(s[1]))
    return DerivationTree(NonTerminal(s[1]), [from_snapshot(k) for k in s[2]])


def merge_whole(f: Any) -> Optional[Atom]:
    """If f is built from atoms with and/or only, the single Python expression a reader may
    also take it for ("truthy for every combination of matches of the symbols it mentions")."""
    if isinstance(f, Bare):
        return merge_whole(f.f)
    if isinstance(f, Atom):
        return f
    if isinstance(f, (And, Or)):
        a, b = merge_whole(f.a), merge_whole(f.b)
        if a is None or b is None:
            return None
        op = "and" if isinstance(f, And) else "or"

        def shift(t: str, pre: str, n: int, off: int) -> str:
            for i in reversed(range(n)):
                t = t.replace("{" + pre + str(i) + "}", "{" + pre + str(i + off) + "}")
            return t

        tb = b.template
        mb = b.misparse
        for pre, na, nb in (("", len(a.sels), len(b.sels)), ("s", len(a.stars), len(b.stars)), ("n", len(a.lens), len(b.lens)), ("b", len(a.bars), len(b.bars))):
            tb = shift(tb, pre, nb, na)
            if mb:
                mb = shift(mb, pre, nb, na)
        mis = None
        if a.misparse or mb:
            mis = f"({a.misparse or a.template}) {op} ({mb or tb})"
        return Atom(f"({a.template}) {op} ({tb})", a.sels + b.sels, a.stars + b.stars, a.lens + b.lens, a.bars + b.bars, cmp=False, misparse=mis)
    if isinstance(f, Quant) and f.kind in ("any", "all"):
        # python-style quantifier inside one Python expression: a generator expression over the star list
        body = merge_whole(f.body)
        if body is None or body.sels or body.misparse:
            return None
        k = len(body.stars)
        return Atom(f"{f.kind}(({body.template}) for {f.var} in {{s{k}}})", (), body.stars + (f.sel,), body.lens, body.bars)
    return None


def readings(f: Any) -> list:
    """every way a formula may legitimately be read: connectives combine quantified sub-formulas
    (compositional), or a connective over plain atoms / python-style quantifiers is ONE Python
    expression (whole); sub-formulas of connectives and quantifiers vary independently"""
    if isinstance(f, Bare):
        return readings(f.f)
    if isinstance(f, Atom):
        return [f]
    out = []
    if isinstance(f, (And, Or)):
        for a in readings(f.a):
            for b in readings(f.b):
                out.append(type(f)(a, b))
    elif isinstance(f, Quant):
        for b in readings(f.body):
            out.append(Quant(f.kind, f.var, f.sel, b))
    w = merge_whole(f)
    if w is not None and w is not f:
        out.append(w)
    # de-duplicate, keep order
    seen, res = set(), []
    for r in out:
        if r not in seen:
            seen.add(r)
            res.append(r)
    return res[:8]
