"""Exploration kernel.

1. Chooser + stateless DFS over the tree of nondeterministic decisions of a harness
   body (complete, or bounded by the number of *deviations* from the default answer 0).
2. Explicit-state BFS over event histories (state = history, rebuilt on fresh objects).

Neither explorer samples: the spaces are walked completely up to the stated bound and any
cap that is hit is returned to the caller, which must report it.
"""

from __future__ import annotations

import collections
from typing import Any, Callable, Iterable, Iterator, Optional

from mc.common import InternalError


class ReplayDivergence(InternalError):
    """The harness took a different path while replaying a recorded prefix:
    some nondeterminism is not owned.  Never a property verdict."""


class Chooser:
    """Answers every nondeterministic point of one execution.

    Replays `prefix`, then answers 0 (the default) at every later point, recording
    (n, label) per point so the explorer can branch afterwards."""

    POLICIES = {
        "zero": lambda n, i: 0,            # first alternative / minimal repetition / "nothing special"
        "last": lambda n, i: n - 1,        # last alternative / maximal repetition
        "rot": lambda n, i: i % n,         # rotating: a varied but fixed base execution
        "trickle": lambda n, i: max(n - 2, 0),  # schedules: exactly one pending unit arrives before every step
    }

    def __init__(self, prefix: Iterable[int] = (), labels: Optional[list[str]] = None, max_points: int = 100000,
                 policy: str = "zero"):
        self.policy = self.POLICIES[policy]
        self.defaults: list[int] = []
        self.prefix = list(prefix)
        self.expect_labels = labels
        self.points: list[tuple[int, str]] = []  # (fan-out, label)
        self.choices: list[int] = []
        self.max_points = max_points

    def pick(self, n: int, label: str = "") -> int:
        if n <= 0:
            raise InternalError(f"pick({n}) at {label}")
        i = len(self.choices)
        if i >= self.max_points:
            raise Horizon(f"more than {self.max_points} choice points")
        if i < len(self.prefix):
            c = self.prefix[i]
            if c >= n:
                raise ReplayDivergence(f"point {i} ({label}): replayed choice {c} out of range {n}")
            if self.expect_labels is not None and i < len(self.expect_labels) and self.expect_labels[i] != label:
                raise ReplayDivergence(f"point {i}: label {label!r} != recorded {self.expect_labels[i]!r}")
        else:
            c = self.policy(n, i)
        self.defaults.append(self.policy(n, i))
        self.points.append((n, label))
        self.choices.append(c)
        return c

    def deviations(self) -> int:
        return sum(1 for c, d in zip(self.choices, self.defaults) if c != d)


class Horizon(Exception):
    """An execution exceeded its explicit horizon (choice points)."""


def dfs(
    body: Callable[[Chooser], Any],
    bound: Optional[int] = None,
    max_runs: Optional[int] = None,
    prefix: Iterable[int] = (),
) -> Iterator[tuple[list[int], Any, Chooser]]:
    """Yield (choices, result, chooser) for every execution of `body` whose number of
    non-default answers is <= bound (None: the complete tree).  Iterative, stack of
    prefixes.  Executions that differ from a prefix only by trailing zeros are the same
    execution and are visited once."""
    stack: list[list[int]] = [list(prefix)]
    base_len = len(list(prefix))
    runs = 0
    while stack:
        pre = stack.pop()
        ch = Chooser(pre)
        try:
            res = body(ch)
        except Horizon as h:
            res = ("__horizon__", str(h))
        if ch.choices[: len(pre)] != pre[: len(ch.choices)] or len(ch.choices) < len(pre):
            raise ReplayDivergence(f"prefix {pre} not reproduced, got {ch.choices}")
        runs += 1
        yield ch.choices, res, ch
        if max_runs is not None and runs >= max_runs:
            if stack:
                yield None, ("__cap__", len(stack)), ch  # type: ignore
            return
        # branch at every point after the prefix
        devs_before = sum(1 for c in ch.choices[: max(len(pre), base_len)] if c != 0)
        d = devs_before
        new: list[list[int]] = []
        for i in range(max(len(pre), base_len), len(ch.points)):
            n, _ = ch.points[i]
            # choices[i] == 0 here by construction
            if bound is None or d + 1 <= bound:
                for alt in range(1, n):
                    new.append(ch.choices[:i] + [alt])
        # push in reverse so that exploration order is simplest-first
        stack.extend(reversed(new))


def dfs_all(body: Callable[[Chooser], Any], bound: Optional[int] = None, max_runs: Optional[int] = None):
    """Convenience: returns (list of (choices, result), capped?)."""
    out = []
    capped = False
    for choices, res, _ in dfs(body, bound, max_runs):
        if choices is None:
            capped = True
            break
        out.append((choices, res))
    return out, capped


def bfs(
    init: Any,
    enabled: Callable[[Any, tuple], Iterable[Any]],
    build: Callable[[tuple], Any],
    canon: Callable[[Any], Any],
    invariant: Callable[[Any, tuple], Optional[dict]],
    max_depth: int,
    max_states: Optional[int] = None,
) -> dict:
    """Explicit-state BFS over histories.  build(history) replays the history on fresh
    objects and returns the state; canon(state) must be hashable; invariant returns None
    or a violation dict.  Returns counters and violations."""
    s0 = build(())
    seen = {canon(s0)}
    frontier = collections.deque([()])
    transitions = 0
    violations = []
    v = invariant(s0, ())
    if v:
        violations.append(v)
    depth_reached = 0
    capped = False
    while frontier:
        hist = frontier.popleft()
        if len(hist) >= max_depth:
            continue
        st = build(hist)
        for ev in enabled(st, hist):
            h2 = hist + (ev,)
            nxt = build(h2)
            transitions += 1
            v = invariant(nxt, h2)
            if v:
                violations.append(v)
            k = canon(nxt)
            if k not in seen:
                seen.add(k)
                depth_reached = max(depth_reached, len(h2))
                frontier.append(h2)
                if max_states is not None and len(seen) >= max_states:
                    capped = True
                    frontier.clear()
                    break
    return {
        "states": len(seen),
        "transitions": transitions,
        "violations": violations,
        "max_depth": depth_reached,
        "capped": capped,
    }


def bfs_levels(
    step,
    alphabet: list,
    max_depth: int,
    pmap_fn,
    max_states: Optional[int] = None,
):
    """Level-synchronous explicit-state BFS whose expansions run in parallel.

    step((history, event)) must be a module-level function: it rebuilds the state by
    replaying history on fresh objects, applies event, and returns
    (canon_of_new_state, violation_or_None, enabled: bool).  enabled=False means the event
    is not applicable in that state (no transition).  Results are merged in index order so
    the search does not depend on scheduling."""
    seen = {None}
    frontier: list = [()]
    transitions = 0
    violations = []
    depth = 0
    capped = False
    samples = []
    while frontier and depth < max_depth:
        tasks = [(h, ev) for h in frontier for ev in alphabet]
        results = pmap_fn(step, tasks)
        nxt = []
        for (h, ev), (canon, viol, enabled) in zip(tasks, results):
            if not enabled:
                continue
            transitions += 1
            if viol is not None:
                violations.append(viol)
            if canon not in seen:
                seen.add(canon)
                nxt.append(h + (ev,))
                if len(samples) < 5:
                    samples.append(list(h + (ev,)))
                if max_states is not None and len(seen) >= max_states:
                    capped = True
                    break
        depth += 1
        frontier = nxt if not capped else []
    return {"states": len(seen), "transitions": transitions, "violations": violations, "depth": depth,
            "capped": capped, "samples": samples, "frontier_left": len(frontier) if depth >= max_depth else 0}
