"""C02 — emitted solutions satisfy every hard constraint (re-judged from scratch on a rebuilt tree).
Same executions as C01 (C) plus the operator closure; oracle = RefConstraint + recount of computed repetitions."""
from mc import evo
from mc.common import Ctx, pmap_tagged

LEVEL = "model_checking"


def run(ctx: Ctx) -> None:
    names = list(evo.cat())
    c = evo.loop_explore(ctx, names, {"C02"}, bound=1 if ctx.quick else 2, cap=1500 if ctx.quick else 40000)
    ctx.log(f"loop: { {k: v for k, v in c.items() if k != 'choice_points_default'} }")
    d = direct(ctx)
    ctx.coverage.update(
        states=c["executions"] + d["states"], transitions=c["executions"] + c["emitted"] + d["transitions"],
        traces_validated_against_impl=c["emitted"] + d["transitions"],
        samples=[{"engine": "loop", "spec": "computed_rep", "policy": "rot", "prefix": []}] + d["samples"], exhaustive=False, loop=c, direct=d["summary"],
        rule="state = one execution of Fandango.fuzz within the deviation bound; every tree handed to solution_callback / returned is rebuilt from a plain snapshot and judged by RefConstraint "
             "and by recounting computed repetitions; plus: every enumerated tree x constraint pair is run through Evaluator.evaluate_individual and whatever it yields is judged",
    )
    ctx.cap(f"deviation bound {1 if ctx.quick else 2} around two base executions; {c['capped']} prefixes not run; {c['horizon']} executions hit the decision horizon")


def direct(ctx: Ctx) -> dict:
    """Evaluator.evaluate_individual as acceptance gate: for every enumerated tree of the C07
    grammars and every constraint of the C07 family (incl. operands that raise), a yielded tree
    must satisfy the reference."""
    from mc.checks import c07
    from mc.common import pmap
    items = []
    for which in c07.GRAMMARS:
        n = len(c07.formulas(which, "quick"))
        items += [(which, i) for i in range(0, n, 1 if not ctx.quick else 2)]
    results = pmap_tagged(direct_work, items, chunk=4)
    st = tr = acc = 0
    for r in results:
        st += r["pairs"]
        tr += r["pairs"]
        acc += r["accepted"]
        for v in r["viol"]:
            ctx.violation(v)
    return {"states": st, "transitions": tr, "samples": [{"engine": "direct", "constraint": results[0]["constraint"], "pairs": results[0]["pairs"]}],
            "summary": {"tree_constraint_pairs": st, "accepted_by_evaluator": acc}}


def direct_work(item):
    from fandango.evolution.evaluation import Evaluator
    from mc.checks import c07
    from mc.fd import build
    from mc.refconstraint import from_snapshot, holds, merge_whole, text
    from mc.refconstraint import readings as all_readings
    which, idx = item
    f = c07.formulas(which, "quick")[idx]
    ctext = text(f)
    out = {"constraint": ctext, "pairs": 0, "accepted": 0, "viol": []}
    try:
        spec = build(c07.GRAMMARS[which].fan(), [ctext])
    except Exception:
        return out
    whole = merge_whole(f)
    readings = all_readings(f)
    ev = Evaluator(spec.grammar, spec.constraints, 1.0, 5, 1.0)
    for snapshot in c07.trees_for(which, "quick"):
        tree = from_snapshot(snapshot)
        gen = ev.evaluate_individual(tree)
        yielded = []
        try:
            while True:
                yielded.append(next(gen))
        except StopIteration:
            pass
        except Exception:
            continue
        out["pairs"] += 1
        if yielded:
            out["accepted"] += 1
            t2 = from_snapshot(snapshot)
            if not any(holds(r, t2) for r in readings):
                explained = None
                import itertools
                for k in (1, 2):
                    for combo in itertools.combinations(c07.VARIANTS, k):
                        if any(holds(r, t2, variant=combo) for r in readings):
                            explained = list(combo)
                            break
                    if explained:
                        break
                out["viol"].append({"kind": "evaluator_accepts_tree_violating_constraint", "grammar": which, "constraint": ctext, "tree": str(tree),
                                    "explained_by": explained or ["unexplained"], "sig": f"direct:{'+'.join(explained or ['unexplained'])}"})
    return out
