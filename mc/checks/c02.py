"""C02 — emitted solutions satisfy every hard constraint (re-judged from scratch on a rebuilt tree).
Same executions as C01 (C) plus the operator closure; oracle = RefConstraint + recount of computed repetitions."""
from mc import evo
from mc.common import Ctx, pmap_tagged

LEVEL = "model_checking"


def run(ctx: Ctx) -> None:
    names = list(evo.cat())
    c = evo.loop_explore(ctx, names, {"C02"}, bound=1 if ctx.quick else 2, cap=1500 if ctx.quick else 10000)
    ctx.log(f"loop: { {k: v for k, v in c.items() if k != 'choice_points_default'} }")
    d = direct(ctx)
    # operator closure through the acceptance gate: every tree reachable by mutate / crossover / repair (all resolutions,
    # depth 2-3) is offered to a fresh evaluator; whatever it accepts as a solution is judged
    b = evo.closure_explore(ctx, names, {"C02"}, depth=2 if ctx.quick else 3, frontier_cap=10 if ctx.quick else 16, run_cap=80 if ctx.quick else 200)
    ctx.log(f"closure: {b}")
    ctx.coverage.update(
        operator_closure=b,
        states=c["executions"] + d["states"] + b["trees"], transitions=c["executions"] + c["emitted"] + d["transitions"] + b["executions"],
        traces_validated_against_impl=c["emitted"] + d["transitions"] + b["executions"],
        samples=[{"engine": "loop", "spec": "computed_rep", "policy": "rot", "prefix": []}] + d["samples"], exhaustive=False, loop=c, direct=d["summary"],
        rule="state = one execution of Fandango.fuzz within the deviation bound; every tree handed to solution_callback / returned is rebuilt from a plain snapshot and judged by RefConstraint "
             "and by recounting computed repetitions; plus: every enumerated tree x constraint pair is run through Evaluator.evaluate_individual and whatever it yields is judged; "
             "plus: every tree reachable through the search operators (depth 2, thorough 3) is offered to a fresh evaluator and whatever it accepts is judged",
    )
    ctx.cap(f"deviation bound {1 if ctx.quick else 2} around two base executions; {c['capped']} prefixes not run; {c['horizon']} executions hit the decision horizon")


def direct(ctx: Ctx) -> dict:
    """Evaluator.evaluate_individual as acceptance gate: for every enumerated tree of the C07
    grammars and every constraint of the C07 family (incl. operands that raise), a yielded tree
    must satisfy the reference."""
    from mc.checks import c07
    from mc.common import pmap
    items = []
    for which in c07.GRAMMARS:
        n = len(c07.formulas(which, "quick"))
        items += [(which, i) for i in range(0, n, 1 if not ctx.quick else 2)]
        # the same programs compiled in LAZY mode (connectives short-circuit): every program with a connective; all of them in the thorough tier
        forms = c07.formulas(which, "quick")
        from mc.refconstraint import text as _text
        items += [(which, i, True) for i in range(n) if (not ctx.quick) or " and " in _text(forms[i]) or " or " in _text(forms[i])]
    items += [("G1pair", i) for i in range(len(pairs()))]
    results = pmap_tagged(direct_work, items, chunk=4)
    st = tr = acc = 0
    for r in results:
        st += r["pairs"]
        tr += r["pairs"]
        acc += r["accepted"]
        for v in r["viol"]:
            ctx.violation(v)
    return {"states": st, "transitions": tr, "samples": [{"engine": "direct", "constraint": results[0]["constraint"], "pairs": results[0]["pairs"]}],
            "summary": {"tree_constraint_pairs": st, "accepted_by_evaluator": acc}}


def pairs() -> list:
    """two constraints of one spec whose scores could compensate each other: a quantifier over a symbol
    with few occurrences next to a comparison over a symbol with many, and comparisons that raise
    when the values are COMPARED (not merely when an operand is evaluated)"""
    from mc.refconstraint import Atom, Child, Quant, Sym
    qs = []
    for sel in (Sym("<c>"), Sym("<a>"), Sym("<b>"), Child(Sym("<a>"), "<c>"), Child(Sym("<b>"), "<d>")):
        qs.append(Quant("any", "x", sel, Atom('len(str(x)) > 0', cmp=True)))
        qs.append(Quant("exists", "<q>", sel, Atom('len(str({0})) < 9', (Sym("<q>"),), cmp=True)))
        qs.append(Quant("all", "x", sel, Atom('len(str(x)) > 0', cmp=True)))
    d = Sym("<d>")
    atoms = [Atom('int({0}) > 1', (d,), cmp=True), Atom('{0} != "a"', (d,), cmp=True), Atom('str({0}) == "1"', (d,), cmp=True),
             Atom('str({0}).isdigit()', (d,)), Atom('str({0}) < 5', (d,), cmp=True), Atom('[str({0})] >= 1', (d,), cmp=True),
             Atom('int({0}) > 1', (Child(Sym("<a>"), "<d>"),), cmp=True)]
    out = [(q, a) for q in qs for a in atoms] + [(a, q) for q in qs[:4] for a in atoms[:5]]
    out += [(atoms[4], atoms[1]), (atoms[1], atoms[4]), (atoms[5], atoms[3]), (atoms[4], atoms[5])]
    return out


def direct_work(item):
    if item[0] == "G1pair":
        return direct_pair_work(item)
    return direct_single_work(item)


def direct_pair_work(item):
    from fandango.evolution.evaluation import Evaluator
    from mc.checks import c07
    from mc.fd import build
    from mc.refconstraint import from_snapshot, holds, text
    from mc.refconstraint import readings as all_readings
    f1, f2 = pairs()[item[1]]
    ctexts = [text(f1), text(f2)]
    out = {"constraint": " ;; ".join(ctexts), "pairs": 0, "accepted": 0, "viol": []}
    try:
        spec = build(c07.GRAMMARS["G1"].fan(), ctexts)
    except Exception:
        return out
    ev = Evaluator(spec.grammar, spec.constraints, 1.0, 5, 1.0)
    rs = [all_readings(f1), all_readings(f2)]
    for snapshot in c07.trees_for("G1", "quick"):
        tree = from_snapshot(snapshot)
        gen = ev.evaluate_individual(tree)
        yielded = []
        try:
            while True:
                yielded.append(next(gen))
        except StopIteration:
            pass
        except Exception:
            continue
        out["pairs"] += 1
        if yielded:
            out["accepted"] += 1
            t2 = from_snapshot(snapshot)
            failing = [ctexts[i] for i in (0, 1) if not any(holds(r, t2) for r in rs[i])]
            if failing:
                out["viol"].append({"kind": "evaluator_accepts_tree_violating_constraint", "grammar": "G1", "constraint": out["constraint"], "violated": failing,
                                    "tree": str(tree), "explained_by": ["unexplained"], "sig": "direct_pair:unexplained"})
    return out


def direct_single_work(item):
    from fandango.evolution.evaluation import Evaluator
    from mc.checks import c07
    from mc.fd import build
    from mc.refconstraint import from_snapshot, holds, merge_whole, text
    from mc.refconstraint import readings as all_readings
    which, idx = item[0], item[1]
    lazy = len(item) > 2 and item[2]
    f = c07.formulas(which, "quick")[idx]
    ctext = text(f)
    out = {"constraint": ctext, "pairs": 0, "accepted": 0, "viol": []}
    try:
        spec = build(c07.GRAMMARS[which].fan(), [ctext], lazy=lazy)
    except Exception:
        return out
    whole = merge_whole(f)
    readings = all_readings(f)
    ev = Evaluator(spec.grammar, spec.constraints, 1.0, 5, 1.0)
    for snapshot in c07.trees_for(which, "quick"):
        tree = from_snapshot(snapshot)
        gen = ev.evaluate_individual(tree)
        yielded = []
        try:
            while True:
                yielded.append(next(gen))
        except StopIteration:
            pass
        except Exception:
            continue
        out["pairs"] += 1
        if yielded:
            out["accepted"] += 1
            t2 = from_snapshot(snapshot)
            if not any(holds(r, t2) for r in readings):
                explained = None
                import itertools
                for k in (1, 2):
                    for combo in itertools.combinations(c07.VARIANTS, k):
                        if any(holds(r, t2, variant=combo) for r in readings):
                            explained = list(combo)
                            break
                    if explained:
                        break
                out["viol"].append({"kind": "evaluator_accepts_tree_violating_constraint", "grammar": which, "constraint": ctext, "tree": str(tree), "lazy": bool(lazy),
                                    "explained_by": explained or ["unexplained"], "sig": f"direct{':lazy' if lazy else ''}:{'+'.join(explained or ['unexplained'])}"})
    return out
