"""C07 — constraint verdicts follow the documented selector/quantifier semantics.

Bounded-exhaustive: every derivation tree (independently enumerated, <= N nodes) of two
small grammars x every constraint program of a family (selectors x predicates x
connectives x quantifiers), compiled by the real front end in eager and in lazy mode.
Oracle: constraint.check(tree) == RefConstraint verdict; lazy == eager.
"""
from __future__ import annotations

import itertools

from mc.common import Ctx, pmap, rotate, tag, pmap_tagged
from mc.fd import build
from mc.refconstraint import And, Atom, Bare, Child, Desc, Idx, Or, Quant, Slc, Sym, Var, from_snapshot, holds, merge_whole, text
from mc.refconstraint import readings as all_readings
from mc.refgrammar import Alt, Lit, NT, Opt, Plus, RefGrammar, Seq, enum_trees

LEVEL = "model_checking"
VARIANTS = ("misparse", "descself")  # models of the two open known findings (identification only)

G1 = RefGrammar({
    "<start>": Seq((NT("<a>"), NT("<b>"))),
    "<a>": Seq((Plus(NT("<d>")), Opt(NT("<c>")))),
    "<b>": Alt((NT("<d>"), Seq((NT("<c>"), NT("<d>"))))),
    "<c>": Lit("x"),
    "<d>": Alt((Lit("1"), Lit("2"), Lit("a"))),
})
G2 = RefGrammar({
    "<start>": NT("<e>"),
    "<e>": Alt((NT("<d>"), Seq((NT("<d>"), Lit("+"), NT("<e>"))))),
    "<d>": Alt((Lit("1"), Lit("2"), Lit("a"))),
})


def selectors(which: str) -> list:
    if which == "G1":
        a, b, d, c, st = Sym("<a>"), Sym("<b>"), Sym("<d>"), Sym("<c>"), Sym("<start>")
        return [d, Child(a, "<d>"), Desc(a, "<d>"), Child(b, "<d>"), Desc(st, "<d>"), Idx(a, 0), Idx(a, -1), Idx(a, 1),
                Slc(a, 0, 2), Slc(a, 1, None), Idx(b, 0), c, Child(a, "<c>"), Child(Child(st, "<a>"), "<d>"), Desc(Child(st, "<b>"), "<d>"),
                Idx(Child(st, "<a>"), 0), Child(st, "<d>")]
    e, d, st = Sym("<e>"), Sym("<d>"), Sym("<start>")
    return [d, e, Child(e, "<d>"), Desc(e, "<d>"), Child(e, "<e>"), Desc(e, "<e>"), Desc(st, "<e>"), Idx(e, 0), Idx(e, 2), Idx(e, -1),
            Slc(e, 0, 2), Slc(e, 1, None), Child(Child(e, "<e>"), "<d>"), Desc(Desc(e, "<e>"), "<d>"), Child(st, "<e>")]


def _indexed(sel) -> bool:
    while not isinstance(sel, (Sym, Var)):
        if isinstance(sel, (Idx, Slc)):
            return True
        sel = sel.base
    return False


def atoms_for(sel) -> list:
    out = _atoms_for(sel)
    if _indexed(sel):
        # `*<a>[i]` is read as indexing the star list; the documentation does not define it: not judged
        out = [a for a in out if not (a.stars or a.lens or a.bars)]
    return out


def _atoms_for(sel) -> list:
    return [
        Atom('str({0}) == "1"', (sel,), cmp=True),
        Atom('{0} == "1"', (sel,), cmp=True),
        Atom('{0} != "a"', (sel,), cmp=True),
        Atom('int({0}) > 1', (sel,), cmp=True),
        Atom('str({0}).isdigit()', (sel,)),
        Atom('int({0}) in (1, 2)', (sel,)),
        Atom('"1" in {s0}', stars=(sel,)),
        Atom('{n0} == 2', lens=(sel,), cmp=True),
        Atom('{b0} >= 2', bars=(sel,), cmp=True),
        Atom('not ({0} == "1")', (sel,)),
        Atom('not {0} == "1"', (sel,), cmp=True, misparse='(not {0}) == "1"'),
        Atom('len(str({0})) == 1', (sel,), cmp=True),
        Atom('float({0}) > 1.0', (sel,), cmp=True),
        Atom('int({0}) * 0.5 < 0.5', (sel,), cmp=True),
        Atom('1 < int({0})', (sel,), cmp=True),
        # chained comparisons: Python reads a < b < c as (a < b) and (b < c)
        Atom('0 < int({0}) < 2', (sel,), cmp=True),
        Atom('2 <= int({0}) <= 2', (sel,)),
        Atom('"0" < str({0}) != "2"', (sel,), cmp=True),
    ]


def formulas(which: str, tier: str) -> list:
    sels = selectors(which)
    out = []
    per_sel = {id(s): atoms_for(s) for s in sels}
    for s in sels:
        out.extend(per_sel[id(s)])
    # two-selector atoms (cartesian product of matches)
    pairs = [(sels[0], sels[1]), (sels[1], sels[2]), (sels[5], sels[6]), (sels[0], sels[7]), (sels[3], sels[0]), (sels[8], sels[9])]
    for x, y in pairs:
        out.append(Atom('{0} == {1}', (x, y), cmp=True))
        out.append(Atom('str({0}) + str({1}) != "1a"', (x, y), cmp=True))
        out.append(Atom('int({0}) <= int({1})', (x, y), cmp=True))
        # every comparison operator over int and over float operands (equal values included: the distance-based
        # fitness of a failed strict comparison must not read as success)
        for op in ("<", ">", "<=", ">=", "==", "!="):
            out.append(Atom('float({0}) ' + op + ' float({1})', (x, y), cmp=True))
            if op != "<=":
                out.append(Atom('int({0}) ' + op + ' int({1})', (x, y), cmp=True))
        out.append(Atom('int({0}) / int({1}) > 1', (x, y), cmp=True))
        out.append(Atom('int({0}) * 0.5 < int({1}) * 0.5', (x, y), cmp=True))
    # connectives over a core set of atoms
    core = [per_sel[id(sels[0])][i] for i in (0, 2, 3, 4)] + [per_sel[id(sels[1])][i] for i in (1, 3)] + [per_sel[id(sels[7])][0], per_sel[id(sels[2])][7]]
    if which == "G1":
        core.append(Atom('str({0}) == "x"', (Sym("<c>"),), cmp=True))
    for x in core:
        for y in core:
            if x is not y:
                out.append(And(x, y))
                out.append(Or(x, y))
    if tier != "quick":
        for x in core[:4]:
            for y in core[:4]:
                for z in core[:5]:
                    out.append(And(Or(x, y), z))
                    out.append(Or(And(x, y), z))
    # quantifiers
    qsels = [q for q in sels[:8] + sels[-3:] if not _indexed(q)]
    bodies_py = lambda v: [Atom(f'str({v}) == "1"', cmp=True), Atom(f'int({v}) > 1', cmp=True), Atom(f'{v} != "a"', cmp=True),
                           Atom(f'str({v}).isdigit()'), Atom(f'int({v}) in (1, 2)')]
    for qs in qsels:
        for kind in ("any", "all"):
            for body in bodies_py("x"):
                out.append(Quant(kind, "x", qs, body))
        for kind in ("exists", "forall"):
            bsym = Sym("<q>")
            for body in [Atom('str({0}) == "1"', (bsym,), cmp=True), Atom('int({0}) > 1', (bsym,), cmp=True), Atom('{0} != "a"', (bsym,), cmp=True),
                         Atom('str({0}).isdigit()', (bsym,)), Atom('{0} == "1"', (Desc(bsym, "<d>"),), cmp=True), Atom('int({0}) > 1', (Child(bsym, "<d>"),), cmp=True)]:
                out.append(Quant(kind, "<q>", qs, body))
    # connectives inside quantifier bodies (the bound variable must reach both operands; lazy mode short-circuits)
    for qs in qsels[:5]:
        for kind in ("any", "all"):
            b = bodies_py("x")
            for x, y in ((b[0], b[1]), (b[1], b[2]), (b[2], b[3]), (b[3], b[0])):
                out.append(Quant(kind, "x", qs, And(x, y)))
                out.append(Quant(kind, "x", qs, Or(x, y)))
                out.append(Quant(kind, "x", qs, Bare(And(x, y))))
                out.append(Quant(kind, "x", qs, Bare(Or(x, y))))
                out.append(Quant(kind, "x", qs, Bare(Or(x, And(y, x)))))
        for kind in ("exists", "forall"):
            bs = Sym("<q>")
            b = [Atom('str({0}) == "1"', (bs,), cmp=True), Atom('int({0}) > 1', (bs,), cmp=True), Atom('{0} != "a"', (bs,), cmp=True), Atom('str({0}).isdigit()', (bs,))]
            for x, y in ((b[0], b[1]), (b[1], b[2]), (b[2], b[3]), (b[3], b[0])):
                out.append(Quant(kind, "<q>", qs, And(x, y)))
                out.append(Quant(kind, "<q>", qs, Or(x, y)))
                out.append(Quant(kind, "<q>", qs, Bare(And(x, y))))
                out.append(Quant(kind, "<q>", qs, Bare(Or(x, y))))
    # nested python-style quantifiers with a bare conjunction in the innermost body
    for k1 in ("any", "all"):
        for k2 in ("any", "all"):
            out.append(Quant(k1, "x", sels[1], Quant(k2, "y", sels[0], Bare(And(Atom('int(y) > 0', cmp=True), Atom('str(y) <= str(x)', cmp=True))))))
    # [:n] / [n:] / negative slices
    for base in ([Sym("<a>"), Sym("<b>")] if which == "G1" else [Sym("<e>")]):
        for lo, hi in ((None, 1), (None, 2), (1, None), (-1, None), (None, -1), (0, 1), (1, 3), (None, 0), (1, 0), (0, 0), (0, None), (0, 2)):
            out.append(Atom('str({0}) == "1"', (Slc(base, lo, hi),), cmp=True))
            out.append(Atom('len(str({0})) == 1', (Slc(base, lo, hi),), cmp=True))
    # nested quantifiers that rebind / combine scopes
    outer = [sels[1] if which == "G2" else Sym("<a>"), Sym("<start>")]
    for o in outer:
        for k1 in ("exists", "forall"):
            for k2 in ("exists", "forall"):
                out.append(Quant(k1, "<p>", o, Quant(k2, "<q>", Desc(Sym("<p>"), "<d>"), Atom('str({0}) == "1"', (Sym("<q>"),), cmp=True))))
                out.append(Quant(k1, "<p>", o, Quant(k2, "<q>", Child(Sym("<p>"), "<d>"), Atom('int({0}) > 1', (Sym("<q>"),), cmp=True))))
                out.append(Quant(k1, "<p>", o, Quant(k2, "<q>", Sym("<d>"), Atom('{0} == {1}', (Sym("<q>"), Desc(Sym("<p>"), "<d>")), cmp=True))))
        for k1 in ("any", "all"):
            for k2 in ("any", "all"):
                # star-style quantifiers bound to NONTERMINALS, the inner domain rooted at the outer bound symbol
                out.append(Quant(k1, "<p>", o, Quant(k2, "<q>", Child(Sym("<p>"), "<d>"), Atom('int({0}) > 1', (Sym("<q>"),), cmp=True))))
                out.append(Quant(k1, "<p>", o, Quant(k2, "<q>", Desc(Sym("<p>"), "<d>"), Atom('str({0}) == "1"', (Sym("<q>"),), cmp=True))))
                out.append(Quant(k1, "x", o, Quant(k2, "y", Sym("<d>"), Atom('str(x).startswith(str(y))'))))
                out.append(Quant(k1, "x", o, Quant(k2, "y", Sym("<d>"), Atom('int(y) > 1', cmp=True))))
                # inner verdict depends on the OUTER python variable (a memo that forgets it serves the first result to all)
                out.append(Quant(k1, "x", o, Quant(k2, "y", Sym("<d>"), Atom('int(y) >= len(str(x))', cmp=True))))
                out.append(Quant(k1, "x", Sym("<d>"), Quant(k2, "y", Sym("<d>"), Atom('str(y) < str(x)', cmp=True))))
                out.append(Quant(k1, "x", Sym("<d>"), Quant(k2, "y", Sym("<d>"), Bare(And(Atom('str(y) != "a"', cmp=True), Atom('str(y) <= str(x)', cmp=True))))))
    # sibling quantifiers under and/or (scope leakage)
    q1 = Quant("exists", "<q>", sels[0], Atom('str({0}) == "1"', (Sym("<q>"),), cmp=True))
    q2 = Quant("forall", "<q>", sels[1], Atom('{0} != "a"', (Sym("<q>"),), cmp=True))
    q3 = Quant("any", "x", sels[0], Atom('str(x) == "2"', cmp=True))
    q4 = Quant("all", "x", sels[1], Atom('int(x) > 0', cmp=True))
    for x in (q1, q2, q3, q4):
        for y in (q1, q2, q3, q4):
            if x is not y and not ({x.kind, y.kind} & {"exists", "forall"} and {x.kind, y.kind} & {"any", "all"} and False):
                out.append(And(x, y))
                out.append(Or(x, y))
    seen, res = set(), []
    for f in out:
        t = text(f)
        if t not in seen:
            seen.add(t)
            res.append(f)
    return res


GRAMMARS = {"G1": G1, "G2": G2}
_TREES: dict = {}


def trees_for(which: str, tier: str) -> list:
    key = (which, tier)
    if key not in _TREES:
        n = (12 if tier == "quick" else 14) if which == "G1" else (11 if tier == "quick" else 14)
        _TREES[key] = enum_trees(GRAMMARS[which], "<start>", n, open_cap=3)
    return _TREES[key]


def real_check(c, tree):
    try:
        return bool(c.check(tree))
    except Exception as e:
        return f"raises:{type(e).__name__}"


def work(item):
    which, idx, tier = item
    f = formulas(which, tier)[idx]
    ctext = text(f)
    fan = GRAMMARS[which].fan()
    out = {"constraint": ctext, "viol": [], "pairs": 0, "accepted": 0, "raises": 0, "rejected_by_frontend": None, "verdicts": set()}
    try:
        eager = build(fan, [ctext]).constraints
        lazy = build(fan, [ctext], lazy=True).constraints
    except Exception as e:
        out["rejected_by_frontend"] = f"{type(e).__name__}: {e}"[:200]
        return out
    if len(eager) != 1 or len(lazy) != 1:
        out["rejected_by_frontend"] = f"{len(eager)} constraints"
        return out
    ce, cl = eager[0], lazy[0]
    whole = merge_whole(f)  # and/or over atoms may also be read as ONE Python expression: either reading is accepted
    for snapshot in trees_for(which, tier):
        tree = from_snapshot(snapshot)
        want = holds(f, tree)
        readings = all_readings(f)
        wants = {holds(r, tree) for r in readings}
        got_e = real_check(ce, tree)
        got_l = real_check(cl, from_snapshot(snapshot))
        out["pairs"] += 1
        out["verdicts"].add((want, str(got_e)))
        if isinstance(got_e, str):
            out["raises"] += 1
        ge = False if isinstance(got_e, str) else got_e
        gl = False if isinstance(got_l, str) else got_l
        out["accepted"] += ge is True
        base = {"grammar": which, "constraint": ctext, "tree": str(tree), "ref": want}
        if ge not in wants:
            # which (smallest) set of modelled defects reproduces the real verdict exactly?
            explained = None
            if isinstance(got_e, str):
                explained = ["check_raises_" + got_e.split(":")[1]]
            else:
                for k in (1, 2):
                    for combo in itertools.combinations(VARIANTS, k):
                        if any(holds(r, tree, variant=combo) == ge for r in readings):
                            explained = list(combo)
                            break
                    if explained:
                        break
            out["viol"].append(dict(base, kind="verdict_differs_from_reference", got=str(got_e), compiled_as=type(ce).__name__,
                                    explained_by=explained or ["unexplained"],
                                    sig=f"verdict:{type(ce).__name__}:ref={want}:explained_by={'+'.join(explained or ['unexplained'])}"))
        if gl != ge:
            out["viol"].append(dict(base, kind="lazy_differs_from_eager", eager=str(got_e), lazy=str(got_l), sig="lazy_differs_from_eager"))
    out["verdicts"] = len(out["verdicts"])
    return out


def run(ctx: Ctx) -> None:
    items = []
    for which in GRAMMARS:
        n = len(formulas(which, ctx.tier))
        nt = len(trees_for(which, ctx.tier))
        ctx.log(f"{which}: {n} constraint programs x {nt} trees")
        items += [(which, i, ctx.tier) for i in range(n)]
    items = rotate(items, ctx.seed)
    results = pmap_tagged(work, items, chunk=4)
    pairs = accepted = raises = rejected = nontrivial = 0
    samples = []
    for r in results:
        if r["rejected_by_frontend"]:
            rejected += 1
            ctx.notes.append(f"front end rejects {r['constraint']!r}: {r['rejected_by_frontend']}") if rejected <= 8 else None
            continue
        pairs += r["pairs"]
        accepted += r["accepted"]
        raises += r["raises"]
        nontrivial += r["verdicts"] > 1
        for v in r["viol"]:
            ctx.violation(v)
        if len(samples) < 6 and r["verdicts"] > 1:
            samples.append({"constraint": r["constraint"], "pairs": r["pairs"], "accepted": r["accepted"]})
    ctx.coverage.update(
        states=pairs, transitions=2 * pairs, traces_validated_against_impl=2 * pairs, samples=samples, exhaustive=True,
        constraint_programs=len(items), rejected_by_front_end=rejected, programs_with_both_verdicts=nontrivial,
        accepted_pairs=accepted, check_raised=raises,
        rule="state = (tree, constraint program); both the eager and the lazy compilation are evaluated on every tree and compared with RefConstraint; "
             "a check() that raises is counted as verdict False",
    )
    ctx.assumptions += ["RefConstraint (mc/refconstraint.py) is the trusted reading of docs/Paths.md; and/or combine universally quantified sub-formulas; "
                        "`..` excludes the node itself; `->` and `|x|` are undocumented (|x| is read as the number of matches)"]
