"""C17 — fixed seeds reproduce the same run.

Configurations = specs x seeds x population sizes; for each, one child process per combination
of the environment seams {heap layout A/B} x {clock offset 0 / +10^6 s} x {import order of
unrelated modules A/B} (8 children), all with the same PYTHONHASHSEED.  Oracle: identical
ordered solution sequence (callback order and returned list) and identical parse forests
across all children.  Decides independence from these sources for these configurations only.
"""
from __future__ import annotations

import itertools
import json
import os
import subprocess

from mc.common import Ctx, InternalError, VERIF, pmap, rotate, pmap_tagged
import mc.fd  # noqa: F401

LEVEL = "model_checking"


def configs(tier: str) -> list:
    from mc import evo
    from mc.checks import c11
    cat = evo.cat()
    specs = {
        "computed_rep": (cat["computed_rep"]["fan"], "2xx"),
        "equality": (cat["equality"]["fan"], "12=12"),
        "nested_rep": (cat["nested_rep"]["fan"], "a-aa-"),
        "recursion": (cat["recursion"]["fan"], "2+2"),
        "bits": (cat["bits"]["fan"], [0x81, 0x01, 0xff]),
        "regex_opt": (cat["regex_opt"]["fan"], "ab=1;"),
        "generators": (cat["generators"]["fan"], None),
        "quantifiers": (c11.SPECS["quantifiers"][0], "1221"),
        "grammar_only": ('<start> ::= <x>* "." <y>?\n<x> ::= "a" | "bb" | r"[cd]"\n<y> ::= <x>{2,3}\n', "abb.cd"),
        "soft": ('<start> ::= <d>+\n<d> ::= r"[0-9]"\nmaximizing int(<start>)\nwhere len(str(<start>)) < 4\n', "123"),
        "set_of_symbols": ('<start> ::= <a> <b> <c>\n<a> ::= "1" | "2"\n<b> ::= "3" | "4"\n<c> ::= "5" | "6"\nwhere int(<a>) + int(<b>) + int(<c>) == 11\n', "245"),
        "ambiguous": ('<start> ::= <x>+\n<x> ::= "a" | "aa"\nwhere len(str(<start>)) == 4\n', "aaaa"),
        # many independent two-way ambiguities: the ORDER of the parse forest depends on the iteration order of rule sets
        "ambiguous_wide": ("<start> ::= <p1> <p2> <p3> <p4> <p5> <p6>\n" + "".join(f"<p{i}> ::= <x> <y> | <u> <v>\n" for i in range(1, 7))
                           + '<x> ::= "a"\n<y> ::= "b"\n<u> ::= "a"\n<v> ::= "b"\n', "abababababab"),
        "generator_ambiguous": ("<start> ::= <q1> <q2> <q3> <q4>\n" + "".join(f'<q{i}> ::= <d> <e> | <h> <k> := "cd"\n' for i in range(1, 5))
                                + '<d> ::= "c"\n<e> ::= "d"\n<h> ::= "c"\n<k> ::= "d"\n', None),
        # one explicit conjunction with several failing parts per individual: mutation picks among the failing trees
        "conjunction": ('<start> ::= <a> "-" <b> "-" <c>\n<a> ::= <digit>+\n<b> ::= <digit>+\n<c> ::= <digit>+\n<digit> ::= r"[0-9]"\n'
                        'where int(<a>) % 13 == 5 and int(<b>) % 17 == 11 and int(<c>) % 7 == 3\n', "5-11-3"),
        # a forall whose body fails for several elements of one individual (the failing trees of all iterations are merged)
        "forall_many": ('<start> ::= <row> ";" <row> ";" <row>\n<row> ::= <cell> "," <cell> "," <cell>\n<cell> ::= <digit>{1,2}\n<digit> ::= r"[0-9]"\n'
                        'where forall <c> in <cell>: int(<c>) > 60\n', "61,62,63;64,65,66;67,68,69"),
        # a computed repetition whose bounds form a real range: the repair draws a goal length
        "computed_range": ('<start> ::= <lo> "-" <hi> ":" <item>{int(<lo>), int(<hi>)}\n<lo> ::= "1" | "2"\n<hi> ::= "4" | "5" | "6"\n<item> ::= "x" | "y"\n'
                           'where str(<item>) != "y"\n', "2-4:xxx"),
        # a conditional expression over three differently shaped symbols: the ORDER of the constraint's searches decides the order of the failing trees
        "conditional": ('<start> ::= <a> "-" <b> "-" <c>\n<a> ::= <digit>{1,4}\n<b> ::= <digit>{2,3}\n<c> ::= <digit>+\n<digit> ::= r"[0-9]"\n'
                        'where (int(<a>) > 990) if (int(<b>) > 80) else (int(<c>) == 77)\nwhere len(str(<c>)) < 40\n', "991-81-5"),
    }
    names = list(specs)
    if tier == "quick":
        seeds, pops = [0, 3], [6]
    else:
        seeds, pops = [0, 1, 2, 3], [5, 20]
    out = []
    for n in names:
        for seed in seeds:
            for pop in pops:
                out.append({"name": n, "spec": specs[n][0], "word": specs[n][1], "seed": seed, "pop": pop})
        # one long run per spec: many generations of crossover/mutation on individuals with several failing parts
        for seed in ([3] if tier == "quick" else [0, 3]):
            out.append({"name": n, "spec": specs[n][0], "word": specs[n][1], "seed": seed, "pop": 10, "n": 8, "gens": 20})
    return out


ENVS = list(itertools.product([0, 1], repeat=3))  # (heap, clock, imports)


def child(task):
    cfg, (heap, clock, imports) = task
    c = dict(cfg, heap=heap, clock=clock, imports=imports, n=cfg.get("n", 5), gens=cfg.get("gens", 6))
    env = dict(os.environ, PYTHONHASHSEED="0", PYTHONDONTWRITEBYTECODE="1")
    env.pop("FANDANGO_RAISE_ALL_EXCEPTIONS", None)
    r = subprocess.run(["/venv/bin/python", os.path.join(VERIF, "mc/c17_child.py"), json.dumps(c)], capture_output=True, text=True, env=env, timeout=600)
    for line in r.stdout.splitlines():
        if line.startswith("C17OBS "):
            return json.loads(line[7:])
    raise InternalError(f"child produced no observation: rc={r.returncode} stderr={r.stderr[-800:]}")


def run(ctx: Ctx) -> None:
    cfgs = rotate(configs(ctx.tier), ctx.seed)
    tasks = [(c, e) for c in cfgs for e in ENVS]
    ctx.log(f"{len(cfgs)} configurations x {len(ENVS)} environment variants = {len(tasks)} child processes")
    results = pmap_tagged(child, tasks, chunk=1)
    by_cfg = {}
    for (c, e), r in zip(tasks, results):
        by_cfg.setdefault((c["name"], c["seed"], c["pop"], c.get("gens", 6)), []).append((e, r))
    distinct_outputs = set()
    emitted = 0
    for key, obs in by_cfg.items():
        ref_env, ref = obs[0]
        distinct_outputs.add(json.dumps(ref, sort_keys=True))
        emitted += len(ref.get("fuzz") or [])
        for e, r in obs[1:]:
            if r != ref:
                what = [k for k in ("fuzz", "returned", "parse", "error") if r.get(k) != ref.get(k)]
                ctx.violation({"kind": "run_depends_on_environment", "config": list(key), "env_a": list(ref_env), "env_b": list(e), "differs_in": what,
                               "a": json.dumps(ref)[:300], "b": json.dumps(r)[:300], "sig": f"{key[0]}:{'+'.join(what)}"})
                break
    ctx.coverage.update(
        states=len(cfgs), transitions=len(tasks), traces_validated_against_impl=len(tasks),
        samples=[{"config": list(k), "solutions": v[0][1].get("fuzz")} for k, v in list(by_cfg.items())[:3]], exhaustive=True,
        configurations=len(cfgs), child_processes=len(tasks), distinct_outputs=len(distinct_outputs), solutions_compared=emitted,
        rule="configuration = (spec, seed, population size, generations: 6 or 20); every configuration is run in 8 fresh processes, one per combination of heap layout / clock offset / import order, same PYTHONHASHSEED; ordered outputs must be identical",
    )
    ctx.assumptions += ["address-space layout, wall clock and import order are each modelled by a two-valued seam; os.urandom/uuid4 are not intercepted (they only name environments)"]
