"""C01 — every generated tree is a derivation of the spec's grammar.

(A) generator choice tree: all resolutions of Grammar.fuzz's random decisions per grammar and
    budget (production budgets: deviation-bounded);
(B) operator closure: reachability over trees under mutate / crossover / repair, every
    resolution of each operator's random decisions;
(C) the real Fandango.fuzz loop under deviation bounding around two base executions.
Oracle: RefGrammar derivation check + membership of the serialisation, on every tree produced
anywhere (population members, operator results, emissions)."""
import itertools

from mc import evo, gen_sweep
from mc.common import Ctx, pmap_tagged

LEVEL = "model_checking"
PID = "C01"


# ---- (D) generation after parse requests on the same object: generators are expanded by PARSING their output
# as their symbol, so what a parse request leaves behind in the grammar object is an input of generation
def d_specs() -> dict:
    from mc.refgrammar import Alt, Lit, NT, Plus, RefGrammar, Seq
    D = Alt((Lit("1"), Lit("2"), Lit("4")))
    return {
        "same_text_two_symbols": (RefGrammar({"<start>": Seq((NT("<year>"), Lit("-"), NT("<code>"))), "<year>": Plus(NT("<d>")),
                                              "<code>": Seq((NT("<h>"), NT("<h>"))), "<h>": Alt((NT("<d>"), Lit("a"))), "<d>": D},
                                             generators={"<year>": '"42"', "<code>": '"42"'}), ["42", "4", "42-42"]),
        "generator_and_free_symbol": (RefGrammar({"<start>": Seq((NT("<k>"), Lit(":"), NT("<v>"), Lit(":"), NT("<w>"))), "<k>": Plus(NT("<d>")),
                                                  "<v>": Seq((NT("<d>"), NT("<d>"))), "<w>": Plus(Alt((NT("<d>"), Lit("x")))), "<d>": D},
                                                 generators={"<k>": '"12"', "<w>": '"12"'}), ["12", "1", "12:12:12"]),
    }


def d_requests(name: str) -> list:
    g, words = d_specs()[name]
    out = [None]
    for sym in g.rules:
        for w in words:
            out += [("forest", sym, w), ("first", sym, w)]
    for w in words:
        out.append(("api", "<start>", w))
    return out


def d_work(task):
    from mc.explore import dfs
    from mc.fd import build, has_helper_symbols, snap
    from mc.refgrammar import TreeChecker
    from mc.seams import max_repetitions, random_seam
    name, hist = task
    g, _ = d_specs()[name]
    fan = g.fan()
    tc = TreeChecker(g)
    out = {"runs": 0, "trees": 0, "viol": []}
    for start in g.rules:
        def body(ch, start=start):
            spec = build(fan)
            for req in hist:
                if req is None:
                    continue
                kind, sym, w = req
                try:
                    if kind == "forest":
                        list(spec.grammar.parse_forest(w, start=sym))
                    elif kind == "first":
                        spec.grammar.parse(w, start=sym)
                    else:
                        list(spec.parse(w))
                except Exception:
                    pass
            with random_seam(ch), max_repetitions(2):
                try:
                    return spec.grammar.fuzz(start, 20)
                except Exception as e:  # a generator whose output does not fit raises: nothing is produced
                    return ("raises", type(e).__name__)
        for choices, tree, _ in dfs(body, bound=10**6, max_runs=40):
            if choices is None:
                break
            out["runs"] += 1
            if isinstance(tree, tuple):
                continue
            out["trees"] += 1
            s = snap(tree)
            why = has_helper_symbols(s)
            why = f"helper symbol {why}" if why else tc.ok(s, start)
            if why is None and s[1] != start:
                why = f"root is {s[1]}, requested {start}"
            if why:
                out["viol"].append({"kind": "generated_tree_not_a_derivation", "spec": name, "grammar": fan, "requests_before": [list(r) for r in hist if r], "start": start,
                                    "why": why, "tree": repr(s)[:300], "sig": f"after_parse:{hist[-1][0] if hist and hist[-1] else 'none'}:not_a_derivation"})
    return out


def part_d(ctx: Ctx) -> dict:
    tasks = []
    for name in d_specs():
        reqs = d_requests(name)
        tasks += [(name, (r,)) for r in reqs]
        if not ctx.quick:
            tasks += [(name, (a, b)) for a, b in itertools.product(reqs[1:], repeat=2)]
    res = pmap_tagged(d_work, tasks, chunk=4)
    agg = {"histories": len(tasks), "runs": sum(r["runs"] for r in res), "trees": sum(r["trees"] for r in res)}
    for r in res:
        for v in r["viol"]:
            ctx.violation(v)
    return agg


def run(ctx: Ctx, which=None) -> None:
    which = which or {PID}
    names = list(evo.cat())
    a = gen_sweep.sweep(ctx, which) if PID == "C01" and ctx.pid == "C01" else None
    b = evo.closure_explore(ctx, names, which, depth=2, frontier_cap=10 if ctx.quick else 24, run_cap=120 if ctx.quick else 400)
    ctx.log(f"closure: {b}")
    c = evo.loop_explore(ctx, names, which, bound=1 if ctx.quick else 2, cap=3000 if ctx.quick else 12000)
    ctx.log(f"loop: { {k: v for k, v in c.items() if k != 'choice_points_default'} }")
    d = part_d(ctx) if ctx.pid == "C01" else {"histories": 0, "runs": 0, "trees": 0}
    ctx.log(f"after parse requests: {d}")
    states = b["trees"] + c["executions"] + (a["distinct_trees"] if a else 0) + d["histories"]
    transitions = b["transitions"] + b["executions"] + c["executions"] + (a["runs"] if a else 0)
    samples = [{"engine": "loop", "spec": "computed_rep", "policy": "rot", "prefix": [0, 0, 1]},
               {"engine": "closure", "spec": "equality", "builder": ["repair", [], ["fuzz", [0, 1]], None]}] + (a["samples"][:3] if a else [])
    ctx.coverage.update(
        states=states, transitions=transitions, traces_validated_against_impl=transitions, samples=samples,
        exhaustive=False,
        generation_after_parse_requests=d,
        generator_choice_trees=({k: v for k, v in a.items() if k != "samples"} if a else None), operator_closure=b, loop=c,
        rule="(A) state = distinct tree per (grammar, budget), transition = one complete execution of Grammar.fuzz under one resolution of its random decisions; "
             "(B) state = distinct tree reachable through the operators, transition = one operator application under one resolution; "
             "(D) state = history of <= 1 (thorough 2) parse requests (whole forest / first tree / API parse, every symbol as start, three words) on a spec whose generators "
             "return text that also parses as another symbol, followed by Grammar.fuzz from every symbol under every resolution of its random decisions; "
             "(C) state = one execution of Fandango.fuzz(population 3, 2 generations, 2 solutions) within the deviation bound of a base resolution (policies zero and rot)",
    )
    if a and a["capped_pairs"]:
        ctx.cap(f"(A) decision tree capped at {gen_sweep.RUN_CAP} executions for {a['capped_pairs']} (grammar, budget) pairs")
    if b["capped_expansions"] or b["frontier_capped"]:
        ctx.cap(f"(B) {b['capped_expansions']} operator expansions capped, {b['frontier_capped']} reachable trees not expanded further (frontier cap)")
    ctx.cap(f"(C) deviation bound {1 if ctx.quick else 2} around two base executions; {c['capped']} second-level prefixes not run (cap); {c['horizon']} executions hit the 6000-decision horizon")
    ctx.assumptions += ["RefGrammar is the trusted derivation checker; MAX_REPETITIONS is lowered to 2-3 during exploration to bound randint fan-out",
                        "open-ended repetitions (*, +, {n,}) have no upper bound in the reference; computed repetitions {expr} are judged by C02"]
