"""C01 — every generated tree is a derivation of the spec's grammar.

(A) generator choice tree: all resolutions of Grammar.fuzz's random decisions per grammar and
    budget (production budgets: deviation-bounded);
(B) operator closure: reachability over trees under mutate / crossover / repair, every
    resolution of each operator's random decisions;
(C) the real Fandango.fuzz loop under deviation bounding around two base executions.
Oracle: RefGrammar derivation check + membership of the serialisation, on every tree produced
anywhere (population members, operator results, emissions)."""
from mc import evo, gen_sweep
from mc.common import Ctx

LEVEL = "model_checking"
PID = "C01"


def run(ctx: Ctx, which=None) -> None:
    which = which or {PID}
    names = list(evo.cat())
    a = gen_sweep.sweep(ctx, which) if PID == "C01" and ctx.pid == "C01" else None
    b = evo.closure_explore(ctx, names, which, depth=1 if ctx.quick else 2, frontier_cap=10 if ctx.quick else 24, run_cap=120 if ctx.quick else 400)
    ctx.log(f"closure: {b}")
    c = evo.loop_explore(ctx, names, which, bound=1 if ctx.quick else 2, cap=3000 if ctx.quick else 40000)
    ctx.log(f"loop: { {k: v for k, v in c.items() if k != 'choice_points_default'} }")
    states = b["trees"] + c["executions"] + (a["distinct_trees"] if a else 0)
    transitions = b["transitions"] + b["executions"] + c["executions"] + (a["runs"] if a else 0)
    samples = [{"engine": "loop", "spec": "computed_rep", "policy": "rot", "prefix": [0, 0, 1]},
               {"engine": "closure", "spec": "equality", "builder": ["repair", [], ["fuzz", [0, 1]], None]}] + (a["samples"][:3] if a else [])
    ctx.coverage.update(
        states=states, transitions=transitions, traces_validated_against_impl=transitions, samples=samples,
        exhaustive=False,
        generator_choice_trees=({k: v for k, v in a.items() if k != "samples"} if a else None), operator_closure=b, loop=c,
        rule="(A) state = distinct tree per (grammar, budget), transition = one complete execution of Grammar.fuzz under one resolution of its random decisions; "
             "(B) state = distinct tree reachable through the operators, transition = one operator application under one resolution; "
             "(C) state = one execution of Fandango.fuzz(population 3, 2 generations, 2 solutions) within the deviation bound of a base resolution (policies zero and rot)",
    )
    if a and a["capped_pairs"]:
        ctx.cap(f"(A) decision tree capped at {gen_sweep.RUN_CAP} executions for {a['capped_pairs']} (grammar, budget) pairs")
    if b["capped_expansions"] or b["frontier_capped"]:
        ctx.cap(f"(B) {b['capped_expansions']} operator expansions capped, {b['frontier_capped']} reachable trees not expanded further (frontier cap)")
    ctx.cap(f"(C) deviation bound {1 if ctx.quick else 2} around two base executions; {c['capped']} second-level prefixes not run (cap); {c['horizon']} executions hit the 6000-decision horizon")
    ctx.assumptions += ["RefGrammar is the trusted derivation checker; MAX_REPETITIONS is lowered to 2-3 during exploration to bound randint fan-out",
                        "open-ended repetitions (*, +, {n,}) have no upper bound in the reference; computed repetitions {expr} are judged by C02"]
