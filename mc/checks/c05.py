"""C05 — completeness: every word of the language (regex leaves taking the match Python's re prefers) parses."""
from mc.common import Ctx
from mc.parser_sweep import sweep

LEVEL = "model_checking"


def run(ctx: Ctx) -> None:
    agg = sweep(ctx, {"C05"})
    ctx.coverage.update(
        states=agg["words"], transitions=agg["words"], traces_validated_against_impl=agg["pref_members"],
        samples=agg["samples"], exhaustive=agg["skipped_words"] == 0,
        grammars=agg["grammars"], words=agg["words"], members=agg["members"], members_in_class=agg["pref_members"],
        skipped_words_after_budget_hits=agg["skipped_words"], spec_errors=agg["spec_errors"], parse_errors=agg["errors"],
        rule="every word w over the alphabet up to the length bound with a reference derivation in which each regex "
             "leaf takes exactly the match re.match prefers at its position must yield >= 1 tree",
    )
    if agg["skipped_words"]:
        ctx.cap(f"{agg['skipped_words']} words skipped on grammars whose parse exceeded the admission budget twice (see C06)")
