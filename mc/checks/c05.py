"""C05 — completeness: every word of the language (regex leaves taking the match Python's re prefers) parses."""
from mc.common import Ctx
from mc.parser_sweep import sweep

LEVEL = "model_checking"


def run(ctx: Ctx) -> None:
    agg = sweep(ctx, {"C05"})
    from mc import computed_sweep
    comp = computed_sweep.sweep(ctx, {"C05"})
    from mc import gen_sweep
    gen = gen_sweep.sweep(ctx, {"C05"})
    from mc.checks import c04_api
    forest = c04_api.run_forest(ctx)
    ctx.coverage.update(
        computed_repetition_sweep=comp, forest_completeness=forest,
        states=agg["words"] + comp["words"] + gen["distinct_trees"], transitions=agg["words"] + comp["words"] + gen["runs"],
        traces_validated_against_impl=agg["pref_members"] + gen["roundtrips"],
        samples=agg["samples"] + gen["samples"], exhaustive=agg["skipped_words"] == 0 and gen["capped_pairs"] == 0,
        generator_roundtrip={k: v for k, v in gen.items() if k != "samples"},
        grammars=agg["grammars"], words=agg["words"], members=agg["members"], members_in_class=agg["pref_members"],
        skipped_words_after_budget_hits=agg["skipped_words"], spec_errors=agg["spec_errors"], parse_errors=agg["errors"],
        rule="every word w over the alphabet up to the length bound with a reference derivation in which each regex "
             "leaf takes exactly the match re.match prefers at its position must yield >= 1 tree",
    )
    if gen["capped_pairs"]:
        ctx.cap(f"generator decision tree capped at {gen_sweep.RUN_CAP} executions for {gen['capped_pairs']} (grammar, budget) pairs; "
                f"{gen['parse_skipped']} generated words not parsed back (diverging grammar class, > 24 symbols, or parse budget)")
    if agg["skipped_words"]:
        ctx.cap(f"{agg['skipped_words']} words skipped on grammars whose parse exceeded the admission budget twice (see C06)")
