"""C14 — the C++ and the Python spec readers agree.

The C++ front end is rebuilt from /repo's current cpp_parser sources (tools/build_cpp.sh,
cached by source hash).  Every spec text formed from <= 3 (thorough 4) lines of a line
alphabet aimed at the hand-written lexer bases (indent stack, open-bracket counter,
f-string mode, python/grammar mode switches, end-of-file dedents), with and without a final
newline, valid and invalid alike, plus the shipped .fan files, goes through both front ends.
Oracle: both reject, or both accept with the identical parse tree (LISP form over rule names
and token texts) and identical extracted Python code.
"""
from __future__ import annotations

import glob
import importlib.machinery
import importlib.util
import itertools
import os
import subprocess

from mc.common import Ctx, InternalError, VERIF, pmap, rotate, pmap_tagged
import mc.fd  # noqa: F401

LEVEL = "model_checking"

LINES = [
    '<start> ::= <a> "x"\n',
    '<a> ::= "a" | (\n    "b"\n    | "c")\n',
    'where len(str(<start>)) > 0\n',
    'def f(x):\n',
    '    return x\n',
    '        y = 1\n',
    '\ty = 2\n',
    '\n',
    '# comment\n',
    'x = f"{1}a"\n',
    '<b> ::= "q" := f(1)\n',
    'if True:\n',
    '  z = 3\n',
    '<c> ::= ("a"\n',
    'x = (1,\n     2)\n',
    '    <d> ::= "d"\n',
    'where forall <q> in <a>:\n    str(<q>) == "a"\n',
    '<e> ::= r"[ab]"{2,} | b"\\x00"\n',
    '   \n',
    'x = """a\nb"""\n',
    'w = f":)"\n',                # a closing bracket in the literal text of an f-string
    'u = f"]{1}"\n',
    '# c\x00omment\n',            # a NUL character with more text after it
    '\ufeff# bom\n',              # byte-order mark
    'n = "a\x00b"\n',             # NUL inside a string literal
    '    \ty = x\n',               # blanks, then a tab: the tab advances to the next multiple of 8 (column 8, the same block as 8 blanks)
    'def g(x):\n    \ty = x + 1\n        return y\n',
    'def h(x):\n    y = 1\n    if x:\n    \ty = 2\n        y = 3\n    return y\n',
    'k = f"{f\'a{1}\'}{\'b\'}"\n',  # an f-string nested in a replacement field, followed by an ordinary string
    'j = f"{f\'a{1}\'}" + "c"\n',
    "i = f'{1}' 'p' f\"{2}\"\n",
]
CORE = [0, 2, 3, 4, 6, 7, 12, 13]

_SO = None


def built_so() -> str:
    global _SO
    if _SO is None:
        src = os.path.join(os.environ.get("VERIF_SRC", "/repo/src"), "fandango/language/cpp_parser")
        r = subprocess.run([os.path.join(VERIF, "tools/build_cpp.sh"), src], capture_output=True, text=True)
        if r.returncode != 0:
            raise InternalError("building the C++ front end failed:\n" + r.stderr[-2000:])
        _SO = r.stdout.strip().splitlines()[-1]
    return _SO


_LOADED = False


def use_built(so: str) -> None:
    """swap the freshly built extension into fandango.language.parser.sa_fandango"""
    global _LOADED
    if _LOADED:
        return
    from fandango.language.parser import sa_fandango

    loader = importlib.machinery.ExtensionFileLoader("c14built.sa_fandango_cpp_parser", so)
    spec = importlib.util.spec_from_loader("c14built.sa_fandango_cpp_parser", loader)
    mod = importlib.util.module_from_spec(spec)
    loader.exec_module(mod)
    sa_fandango.sa_fandango_cpp_parser = mod
    _LOADED = True


def ser(node, P) -> str:
    """LISP form of a parse tree: rule names, and for tokens their type plus text (the text of the
    synthetic INDENT / DEDENT tokens is a lexer-base artefact that nothing downstream reads: type only)"""
    from antlr4.tree.Tree import TerminalNode

    if isinstance(node, TerminalNode):
        tok = node.getSymbol()
        tname = P.symbolicNames[tok.type] if 0 <= tok.type < len(P.symbolicNames) else str(tok.type)
        if tname in ("INDENT", "DEDENT"):
            return tname
        return f"{tname}:{tok.text!r}"
    name = P.ruleNames[node.getRuleIndex()]
    kids = [ser(node.getChild(i), P) for i in range(node.getChildCount())]
    return "(" + " ".join([name] + kids) + ")"


def front_end(which: str, text: str):
    import fandango
    from fandango.language.parse.parse_tree import parse_tree
    from fandango.language.parse.spec import CachedFandangoSpec
    from fandango.language.parser.FandangoParser import FandangoParser

    old = fandango.Fandango.parser
    fandango.Fandango.parser = which
    try:
        tree = parse_tree("<c14>", text)
        lisp = ser(tree, FandangoParser)
        try:
            spec = CachedFandangoSpec(tree, text, filename="<c14>")
            code = spec.code_text
            n = (len(spec.productions), len(spec.constraints))
        except Exception as e:
            code = "EXTRACT-ERROR:" + type(e).__name__
            n = None
        return ("accept", lisp, code, n)
    except Exception as e:
        return ("reject", type(e).__name__, str(e)[:160])
    finally:
        fandango.Fandango.parser = old


def work(item):
    so, label, text = item
    use_built(so)
    cpp = front_end("cpp", text)
    py = front_end("python", text)
    out = {"label": label, "verdict": cpp[0] + "/" + py[0], "viol": None}
    if cpp[0] != py[0]:
        out["viol"] = {"kind": "one_front_end_rejects", "text": text, "label": label, "cpp": repr(cpp)[:300], "python": repr(py)[:300],
                       "sig": f"accept_mismatch:cpp={cpp[0]}:py={py[0]}"}
    elif cpp[0] == "accept" and cpp[1:] != py[1:]:
        what = "parse_tree" if cpp[1] != py[1] else "code"
        out["viol"] = {"kind": "front_ends_produce_different_results", "text": text, "label": label, "differs_in": what,
                       "cpp": repr(cpp[1 if what == 'parse_tree' else 2])[:300], "python": repr(py[1 if what == 'parse_tree' else 2])[:300],
                       "sig": f"different_{what}"}
    elif cpp[0] == "reject" and cpp[1] != py[1]:
        out["viol"] = {"kind": "front_ends_reject_with_different_error_class", "text": text, "label": label, "cpp": repr(cpp)[:200], "python": repr(py)[:200],
                       "sig": f"reject_class:{cpp[1]}/{py[1]}"}
    return out


def texts(tier: str) -> list:
    out = []
    n = len(LINES)
    seqs = [(i,) for i in range(n)] + list(itertools.product(range(n), repeat=2))
    core = CORE if tier == "quick" else list(range(n))
    seqs += list(itertools.product(core, repeat=3))
    if tier != "quick":
        seqs += list(itertools.product(CORE[:7], repeat=4))
    seen = set()
    for seq in seqs:
        if seq in seen:
            continue
        seen.add(seq)
        t = "".join(LINES[i] for i in seq)
        out.append(("lines:" + ",".join(map(str, seq)), t))
        if t.endswith("\n") and len(seq) <= 2 or (len(seq) == 3 and tier != "quick"):
            out.append(("lines:" + ",".join(map(str, seq)) + ":nonl", t[:-1]))
        # line-ending variants: CRLF everywhere, and bare CR (both lexer bases special-case \r next to \n)
        out.append(("lines:" + ",".join(map(str, seq)) + ":crlf", t.replace("\n", "\r\n")))
        if len(seq) <= 2 or tier != "quick":
            out.append(("lines:" + ",".join(map(str, seq)) + ":cr", t.replace("\n", "\r")))
    return out


def shipped(tier: str) -> list:
    out = []
    files = sorted(glob.glob("/repo/tests/resources/*.fan") + glob.glob("/repo/docs/*.fan") + glob.glob("/repo/evaluation/**/*.fan", recursive=True))
    limit = 1200 if tier == "quick" else 40000
    for f in files:
        try:
            t = open(f).read()
        except Exception:
            continue
        if len(t) <= limit:
            out.append(("file:" + f[len("/repo/"):], t))
    return out


def run(ctx: Ctx) -> None:
    so = built_so()
    ctx.log(f"C++ front end: {so}")
    items = shipped(ctx.tier) + rotate(texts(ctx.tier), ctx.seed)
    ctx.log(f"{len(items)} spec texts")
    results = pmap_tagged(work, [(so, l, t) for l, t in items], chunk=8)
    verdicts = {}
    for r in results:
        verdicts[r["verdict"]] = verdicts.get(r["verdict"], 0) + 1
        if r["viol"]:
            ctx.violation(r["viol"])
    ctx.coverage.update(
        states=len(items), transitions=2 * len(items), traces_validated_against_impl=len(items),
        samples=[{"label": l, "text": t} for l, t in items[-3:]] + [{"label": items[0][0]}],
        exhaustive=True, verdicts=verdicts, shipped_files=sum(1 for l, _ in items if l.startswith("file:")), built_extension=os.path.basename(so),
        rule="state = spec text (line sequence over the line alphabet, with/without final newline, or a shipped .fan file); each text is read by the rebuilt C++ front end and by the Python front end in one process; "
             "parse trees (rule names + token texts) and extracted code must be identical, or both must reject with the same error class",
    )
    ctx.assumptions += ["the C++ extension is rebuilt from /repo/src/fandango/language/cpp_parser with cmake/g++ -O2 (not the project's LTO flags)"]
