def run_api(ctx):
    return {"states": 0, "transitions": 0, "samples": [], "summary": "not built yet"}
