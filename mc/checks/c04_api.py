"""C04, public API part: Fandango.parse(word) yields exactly the trees of the grammar's forest
that satisfy the spec's constraints (judged by RefConstraint)."""
from __future__ import annotations

from mc.common import pmap, pmap_tagged
from mc.fd import build, snap
from mc.refconstraint import And, Atom, Child, Desc, Idx, Or, Quant, Slc, Sym, holds, merge_whole, text
from mc.refconstraint import readings as all_readings
from mc.refgrammar import TreeChecker, WordMatcher, snap_text, words

GRAMMAR = '<start> ::= <a> <b>\n<a> ::= <d>+ <c>?\n<b> ::= <d> | <c> <d>\n<c> ::= "x"\n<d> ::= "1" | "2" | "a" | "12"\n'


def constraints() -> list:
    a, b, d, c = Sym("<a>"), Sym("<b>"), Sym("<d>"), Sym("<c>")
    at = [
        Atom('str({0}) == "1"', (Child(a, "<d>"),), cmp=True),
        Atom('int({0}) > 1', (d,), cmp=True),
        Atom('{0} != "a"', (Desc(a, "<d>"),), cmp=True),
        Atom('{n0} == 2', lens=(d,), cmp=True),
        Atom('str({0}).isdigit()', (Idx(a, 0),)),
        Atom('{0} == {1}', (Idx(a, 0), Child(b, "<d>")), cmp=True),
        Atom('"12" in {s0}', stars=(d,)),
        Atom('str({0}) == "x"', (c,), cmp=True),
    ]
    out = list(at)
    for x in at[:4]:
        for y in at[3:]:
            if x is not y:
                out += [And(x, y), Or(x, y)]
    for kind in ("any", "all"):
        out.append(Quant(kind, "x", Child(a, "<d>"), Atom('int(x) > 1', cmp=True)))
        out.append(Quant(kind, "x", d, Atom('str(x) == "12"', cmp=True)))
    for kind in ("exists", "forall"):
        out.append(Quant(kind, "<q>", a, Atom('int({0}) > 1', (Child(Sym("<q>"), "<d>"),), cmp=True)))
    return out


def jobs() -> list:
    """single constraints, and pairs/triples given as separate `where` clauses (all must hold)"""
    cs = constraints()
    out = [(i,) for i in range(len(cs))]
    for i in range(8):
        for j in range(8):
            if i != j:
                out.append((i, j))
    out.append((0, 3, 7))
    out.append((7, 3, 0))
    return out


def work(idxs):
    cs = constraints()
    fs = [cs[i] for i in idxs]
    ctexts = [text(f) for f in fs]
    ctext = " ;; ".join(ctexts)
    spec = build(GRAMMAR, ctexts)
    plain = build(GRAMMAR)
    readings_per = [all_readings(f) for f in fs]
    res = {"constraint": ctext, "words": 0, "trees": 0, "yielded": 0, "viol": []}
    for w in words(["1", "2", "a", "x"], 5):
        forest = list(plain.grammar.parse_forest(w))
        if not forest:
            try:
                got = list(spec.parse(w))
            except Exception:
                got = []
            if got:
                res["viol"].append({"kind": "api_yields_tree_for_non_member", "constraint": ctext, "word": w, "sig": "api_yields_tree_for_non_member"})
            continue
        res["words"] += 1
        res["trees"] += len(forest)
        try:
            got = [snap(t) for t in spec.parse(w)]
        except Exception as e:
            res["viol"].append({"kind": "api_parse_raises", "constraint": ctext, "word": w, "error": repr(e)[:200], "sig": f"api_parse_raises:{type(e).__name__}"})
            continue
        res["yielded"] += len(got)
        for t in forest:
            s = snap(t)
            # the tree must be yielded iff EVERY constraint holds; a constraint holds if some reading holds
            each = [{holds(r, t) for r in rs} for rs in readings_per]
            if all(v == {True} for v in each):
                verdicts = {True}
            elif any(v == {False} for v in each):
                verdicts = {False}
            else:
                verdicts = {True, False}
            if s in got and verdicts == {False}:
                res["viol"].append({"kind": "api_yields_tree_violating_constraint", "constraint": ctext, "word": w, "tree": repr(s)[:300],
                                    "sig": "api_yields_tree_violating_constraint"})
            if s not in got and verdicts == {True}:
                res["viol"].append({"kind": "api_drops_satisfying_tree", "constraint": ctext, "word": w, "tree": repr(s)[:300],
                                    "sig": "api_drops_satisfying_tree"})
        for s in got:
            if s not in [snap(t) for t in forest]:
                res["viol"].append({"kind": "api_yields_tree_outside_forest", "constraint": ctext, "word": w, "sig": "api_yields_tree_outside_forest"})
    return res


def work_start(start):
    """a spec object configured for another start symbol (Fandango(..., start_symbol=...), `fandango parse --start-symbol`):
    the API parse must yield exactly the grammar's forest FROM THAT SYMBOL, with and without a constraint"""
    res = {"constraint": f"start_symbol={start}", "words": 0, "trees": 0, "yielded": 0, "viol": []}
    for ctexts in (None, ['str(<d>) != "a"']):
        spec = build(GRAMMAR, ctexts, start_symbol=start)
        plain = build(GRAMMAR)
        for w in words(["1", "2", "a", "x"], 4):
            forest = [snap(t) for t in plain.grammar.parse_forest(w, start=start)]
            if ctexts:
                forest = [f for f in forest if "('T', 'a')" not in repr(f)]
            try:
                got = [snap(t) for t in spec.parse(w)]
            except Exception:
                got = []
            res["words"] += 1
            res["trees"] += len(forest)
            res["yielded"] += len(got)
            if sorted(map(repr, got)) != sorted(map(repr, forest)):
                res["viol"].append({"kind": "api_parse_ignores_start_symbol", "start_symbol": start, "constraints": ctexts, "word": w,
                                    "api_trees": [repr(g)[:120] for g in got][:3], "forest_from_start_symbol": [repr(f)[:120] for f in forest][:3],
                                    "sig": "api_parse_ignores_start_symbol"})
    return res


def ref_grammar():
    from mc.refgrammar import Alt, Lit, NT, Opt, Plus, RefGrammar, Seq
    d = Alt((Lit("1"), Lit("2"), Lit("a"), Lit("12")))
    return RefGrammar({"<start>": Seq((NT("<a>"), NT("<b>"))), "<a>": Seq((Plus(NT("<d>")), Opt(NT("<c>")))),
                       "<b>": Alt((NT("<d>"), Seq((NT("<c>"), NT("<d>"))))), "<c>": Lit("x"), "<d>": d})


def work_forest(start):
    """the FOREST itself against independently enumerated derivations: every derivation of a word must be in the forest (a constraint
    may single out any of them, so a forest that lost one makes some spec reject a word it generated itself)"""
    from mc.refgrammar import enum_trees
    res = {"constraint": f"forest_completeness:{start}", "words": 0, "trees": 0, "yielded": 0, "viol": []}
    g = ref_grammar()
    by_word: dict = {}
    for t in enum_trees(g, start, 16, open_cap=5):
        by_word.setdefault(snap_text(t), set()).add(t)
    plain = build(GRAMMAR)
    for w in words(["1", "2", "a", "x"], 5):
        want = by_word.get(w, set())
        got = {snap(t) for t in plain.grammar.parse_forest(w, start=start)}
        res["words"] += 1
        res["trees"] += len(want)
        res["yielded"] += len(got)
        if want - got:
            missing = sorted(want - got)
            # model of ONE recorded defect: of the 2^k derivations of a word with k >= 2 places that read "12" either as one <d> or as two,
            # exactly the one that splits EVERY such place is lost when nothing follows the repetition
            all_split = len(missing) == 1 and "'12'" not in repr(missing[0]) and w.count("12") >= 2 and len(want) == 2 ** w.count("12")
            res["viol"].append({"kind": "forest_misses_derivation", "grammar": GRAMMAR, "start": start, "word": w, "derivations": len(want), "forest": len(got),
                                "missing": repr(missing[0])[:300], "only_the_all_split_derivation_is_missing": all_split,
                                "sig": f"forest_misses_derivation:all_split={all_split}"})
    return res


def run_forest(ctx):
    results = pmap_tagged(work_forest, ["<start>", "<a>", "<b>"], chunk=1)
    out = {"words": 0, "reference_derivations": 0, "forest_trees": 0}
    for r in results:
        out["words"] += r["words"]
        out["reference_derivations"] += r["trees"]
        out["forest_trees"] += r["yielded"]
        for v in r["viol"]:
            ctx.violation(v)
    return out


def run_api(ctx):
    js = jobs()
    n = len(js)
    results = pmap_tagged(work, js, chunk=1)
    results += pmap_tagged(work_start, ["<a>", "<b>", "<d>", "<start>"], chunk=1)
    words_n = trees = yielded = 0
    for r in results:
        words_n += r["words"]
        trees += r["trees"]
        yielded += r["yielded"]
        for v in r["viol"]:
            ctx.violation(v)
    return {"states": words_n, "transitions": trees, "samples": [{"api_constraint": results[0]["constraint"], "words": results[0]["words"], "yielded": results[0]["yielded"]}],
            "summary": {"constraints": n, "member_words": words_n, "forest_trees_judged": trees, "trees_yielded_by_api": yielded}}
