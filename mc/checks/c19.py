"""C19 — protocol forecasting offers exactly the grammar's continuations.

For every protocol grammar of a family (message atoms <A:B:m1>, <B:A:m2>, <A:B:m3> under
| , concatenation, ?, *, +, {1,2}, {2,}, {2}, nesting through intermediate symbols), an
explicit-state BFS over message histories: each transition takes one forecast option (every
message type x every mounting path), mounts a message with the real DerivationTree.append
and calls the real PacketForecaster.predict.  Oracle: predicted (sender, recipient, type)
set == letters that extend the history to a prefix of the reference message language;
complete_trees non-empty <=> the history is a full interaction.
"""
from __future__ import annotations

import copy

from mc import families
from mc.common import Ctx, pmap, rotate, tag, pmap_tagged
from mc.fd import AdmissionCounter, Budget, DerivationTree, NonTerminal, Terminal, Timeout, build, snap, time_limit
from mc.refgrammar import Alt, Lit, NT, Opt, Plus, RefGrammar, Rep, Seq, Star, WordMatcher, viable

LEVEL = "model_checking"

PRELUDE = '''class A(FandangoParty):
    def __init__(self):
        super().__init__(connection_mode=ConnectionMode.OPEN)
    def send(self, message, recipient):
        pass
class B(FandangoParty):
    def __init__(self):
        super().__init__(connection_mode=ConnectionMode.EXTERNAL)
class C(FandangoParty):
    def __init__(self):
        super().__init__(connection_mode=ConnectionMode.EXTERNAL)
'''

M1 = NT("<m1>", "A", "B")
M2 = NT("<m2>", "B", "A")
M3 = NT("<m3>", "A", "B")
M4 = NT("<m4>", "C", "A")
M3R = NT("<m3>", "B", "A")   # the same message type as M3, travelling the other way
M5 = NT("<m5>", "B", "C")    # between two external parties: invisible to the fuzzer, sliced out of the grammar
M6 = NT("<m6>", "C", "B")
LETTER = {("A", "B", "<m1>"): "p", ("B", "A", "<m2>"): "q", ("A", "B", "<m3>"): "r", ("C", "A", "<m4>"): "s", ("B", "A", "<m3>"): "t",
          ("B", "C", "<m5>"): "", ("C", "B", "<m6>"): ""}
MSG_RULES = {"<m1>": Lit("1"), "<m2>": Lit("2"), "<m3>": Lit("3"), "<m4>": Lit("4"), "<m5>": Lit("5"), "<m6>": Lit("6")}
VALUE = {"p": "1", "q": "2", "r": "3", "s": "4", "t": "3"}


def _vis_default(key) -> bool:
    return bool(LETTER[key])


def to_letters(n, vis=_vis_default):
    """message-level abstraction of a rule body: message nonterminals become letters; invisible messages are ERASED
    (projection to the view of the kept parties)"""
    if isinstance(n, NT):
        if n.sender is not None:
            key = (n.sender, n.recipient, n.name)
            return Lit(LETTER[key]) if vis(key) else Seq(())
        return n
    if isinstance(n, (Seq, Alt)):
        return type(n)(tuple(to_letters(x, vis) for x in n.items))
    if isinstance(n, (Opt, Star, Plus)):
        return type(n)(to_letters(n.x, vis))
    if isinstance(n, Rep):
        return Rep(to_letters(n.x, vis), n.lo, n.hi)
    return n


def drop_rules(rules: dict, vis) -> dict:
    """the other reading of slicing: an element that consists of invisible messages only is REMOVED (an alternative loses
    the branch, a repetition over it disappears, a rule that becomes empty is removed wherever it is referenced)"""
    dead: set = set()
    while True:
        def d(n):
            if isinstance(n, NT):
                if n.sender is not None:
                    key = (n.sender, n.recipient, n.name)
                    return Lit(LETTER[key]) if vis(key) else None
                return None if n.name in dead else n
            if isinstance(n, (Seq, Alt)):
                items = [y for y in (d(x) for x in n.items) if y is not None]
                if not items:
                    return None
                return type(n)(tuple(items))
            if isinstance(n, (Opt, Star, Plus)):
                y = d(n.x)
                return None if y is None else type(n)(y)
            if isinstance(n, Rep):
                y = d(n.x)
                return None if y is None else Rep(y, n.lo, n.hi)
            return n
        out = {k: d(v) for k, v in rules.items() if k not in MSG_RULES and k not in dead}
        newly = {k for k, v in out.items() if v is None}
        if not newly:
            return out
        dead |= newly


def used_msgs(n, acc):
    if isinstance(n, NT):
        if n.sender is not None:
            acc.add(n.name)
    elif isinstance(n, (Seq, Alt)):
        for x in n.items:
            used_msgs(x, acc)
    elif isinstance(n, (Opt, Star, Plus, Rep)):
        used_msgs(n.x, acc)
    return acc


EMPTY = Alt(())  # the empty language


def _seq(items):
    items = [x for x in items]
    if any(x is EMPTY or x == EMPTY for x in items):
        return EMPTY
    return Seq(tuple(items)) if len(items) != 1 else items[0]


def _alt(items):
    items = [x for x in items if x != EMPTY]
    if not items:
        return EMPTY
    return Alt(tuple(items)) if len(items) != 1 else items[0]


class Relaxer:
    """Model of ONE known defect, used only to identify it: the forecaster lets the last,
    unfinished iteration of a repetition stop anywhere (and ignores the minimum count for it).
    relax(G) is G where every repetition R = x{lo,hi} also admits  x{0,hi-1} . PP(x),
    PP(x) being the non-empty proper prefixes of x."""

    def __init__(self, rules):
        self.rules = rules
        self.out = {}
        self.pp_names = {}

    def grammar(self):
        for name, body in self.rules.items():
            self.out[name] = self.relax(body)
        # PP rules requested while relaxing
        done = set()
        while set(self.pp_names) - done:
            for name in list(self.pp_names):
                if name in done:
                    continue
                done.add(name)
                self.out[self.pp_names[name]] = self.pp(self.relax(self.rules[name]))
        g = RefGrammar({k: v for k, v in self.out.items() if v != EMPTY})
        return g, {k for k, v in self.out.items() if v == EMPTY}

    def relax(self, n):
        if isinstance(n, (Seq,)):
            return _seq([self.relax(x) for x in n.items])
        if isinstance(n, Alt):
            return _alt([self.relax(x) for x in n.items])
        if isinstance(n, (Opt, Star, Plus, Rep)):
            x = self.relax(n.x)
            lo, hi = {Opt: (0, 1), Star: (0, None), Plus: (1, None)}.get(type(n), (getattr(n, "lo", 0), getattr(n, "hi", None)))
            full = Rep(x, lo, hi) if not isinstance(n, (Opt, Star, Plus)) else type(n)(x)
            before = Rep(x, 0, None if hi is None else hi - 1) if (hi is None or hi - 1 >= 1) else Seq(())
            partial = _seq([before, self.pp(x)]) if before != Seq(()) else self.pp(x)
            return _alt([full, partial])
        return n

    def pp(self, n):
        """non-empty proper prefixes"""
        if isinstance(n, Lit):
            return EMPTY if len(n.v) <= 1 else _alt([Lit(n.v[:k]) for k in range(1, len(n.v))])
        if isinstance(n, NT):
            if n.name not in self.pp_names:
                self.pp_names[n.name] = "<pp_" + n.name[1:]
            return NT(self.pp_names[n.name])
        if isinstance(n, Seq):
            alts = []
            for k in range(len(n.items)):
                head = list(n.items[:k])
                if k > 0:
                    alts.append(_seq(head))
                alts.append(_seq(head + [self.pp(n.items[k])]))
            return _alt(alts)
        if isinstance(n, Alt):
            return _alt([self.pp(x) for x in n.items])
        if isinstance(n, (Opt, Star, Plus, Rep)):
            lo, hi = {Opt: (0, 1), Star: (0, None), Plus: (1, None)}.get(type(n), (getattr(n, "lo", 0), getattr(n, "hi", None)))
            alts = []
            before = Rep(n.x, 0, None if hi is None else hi - 1) if (hi is None or hi - 1 >= 1) else None
            alts.append(_seq([before, self.pp(n.x)]) if before is not None else self.pp(n.x))
            if lo >= 2:
                alts.append(Rep(n.x, 1, lo - 1))
            return _alt(alts)
        return EMPTY


def relaxed_viable(rules_letters, word):
    g, empties = Relaxer(rules_letters).grammar()
    # references to empty-language symbols: drop alternatives using them (conservatively: treat as no match)
    def strip(n):
        if isinstance(n, NT) and (n.name in empties or n.name not in g.rules):
            return EMPTY
        if isinstance(n, Seq):
            return _seq([strip(x) for x in n.items])
        if isinstance(n, Alt):
            return _alt([strip(x) for x in n.items])
        if isinstance(n, (Opt, Star)):
            x = strip(n.x)
            return Seq(()) if x == EMPTY else type(n)(x)
        if isinstance(n, Plus):
            x = strip(n.x)
            return EMPTY if x == EMPTY else Plus(x)
        if isinstance(n, Rep):
            x = strip(n.x)
            if x == EMPTY:
                return Seq(()) if n.lo == 0 else EMPTY
            return Rep(x, n.lo, n.hi)
        return n
    for _ in range(4):
        g = RefGrammar({k: strip(v) for k, v in g.rules.items()})
        g = RefGrammar({k: v for k, v in g.rules.items() if v != EMPTY})
    if "<start>" not in g.rules:
        return False
    try:
        return viable(g, word)
    except Exception:
        return None


def _visible(n) -> bool:
    if isinstance(n, NT):
        return n.sender is None or bool(LETTER.get((n.sender, n.recipient, n.name), "x"))
    if isinstance(n, (Seq, Alt)):
        return any(_visible(x) for x in n.items)
    if isinstance(n, (Opt, Star, Plus, Rep)):
        return _visible(n.x)
    return True


def _alt_with_invisible_branch(n) -> bool:
    if isinstance(n, Alt):
        if any(not _visible(x) for x in n.items):
            return True
        return any(_alt_with_invisible_branch(x) for x in n.items)
    if isinstance(n, Seq):
        return any(_alt_with_invisible_branch(x) for x in n.items)
    if isinstance(n, (Opt, Star, Plus, Rep)):
        return _alt_with_invisible_branch(n.x)
    return False


def family(tier: str) -> list:
    atoms = [M1, M2, M3]
    bodies = families.exprs(atoms, 2, full_binary_depth=1)
    out = []
    for i, e in enumerate(bodies):
        out.append({"<start>": e})
        if i % 4 == 0:  # nesting through intermediate symbols
            out.append({"<start>": Seq((NT("<s>"), Opt(M3))), "<s>": e})
        if i % 7 == 0:
            out.append({"<start>": Alt((Seq((NT("<s>"), M2)), M1)), "<s>": e})
    # one non-message ("state") symbol referenced from two positions that are on the exploration frontier of the same history
    S = NT("<s>")
    for e in [Seq((M2, M3)), M2, Seq((M3, M2)), Alt((M2, Seq((M3, M2)))), Plus(M2)]:
        out.append({"<start>": Seq((M1, Opt(Seq((S, M1))), S, M3)), "<s>": e})
        out.append({"<start>": Seq((M1, Star(Seq((S, M1))), S, M3)), "<s>": e})
        out.append({"<start>": Seq((M1, Alt((Seq((S, M1)), M3)), S, M1)), "<s>": e})
        out.append({"<start>": Seq((Opt(S), S, M1)), "<s>": e})
    out.append({"<start>": Seq((M1, Star(Seq((M2, M3))), M2))})
    out.append({"<start>": Seq((NT("<x>"), NT("<y>"))), "<x>": Alt((M1, Seq((M1, M2)))), "<y>": Alt((M3, Seq((M2, M3))))})
    out.append({"<start>": Seq((M4, M1, Opt(M4), M2))})
    out.append({"<start>": Alt((Seq((M1, NT("<start>"))), M2))})
    # one message type in both directions, reachable by the same type sequence, with different continuations
    out.append({"<start>": Seq((M1, M2, Alt((Seq((M3, M2)), Seq((M3R, M1))))))})
    out.append({"<start>": Seq((M1, Alt((Seq((M3, Plus(M2))), M3R))))})
    for e in families.exprs([M3, M3R, M2], 2, full_binary_depth=1)[:: (4 if tier == "quick" else 1)]:
        out.append({"<start>": Seq((M1, e))})
    # messages between two external parties are sliced out; adjacent removable elements, removable elements under operators
    out.append({"<start>": Seq((M1, M5, M6, M2, M3))})
    out.append({"<start>": Seq((M1, M5, M6, M5, M2))})
    out.append({"<start>": Seq((M1, Opt(Seq((M5, M6))), M2, Star(M5), M3))})
    for e in families.exprs([M5, M6, M2, M3], 2, full_binary_depth=1)[:: (9 if tier == "quick" else 2)]:
        out.append({"<start>": Seq((M1, e, M2))})
    res = []
    for rules in out:
        lg = RefGrammar({k: to_letters(v) for k, v in rules.items()})
        if not WordMatcher(lg, "").member() and not any(viable(lg, c) for c in "pqrst"):
            continue  # empty language after projection
        if any(_alt_with_invisible_branch(b) for b in rules.values()):
            continue  # Fandango DROPS an alternative that only talks between external parties, erasure would keep it as an
            #           empty branch; the documentation does not say which: not judged  # the forecaster re-parses the history with the Earley parser, which diverges on these (C06 known finding)
        used = set()
        for b in rules.values():
            used_msgs(b, used)
        full = dict(rules)
        for m in sorted(used):
            full[m] = MSG_RULES[m]
        res.append(full)
    return res


def work(item):
    from fandango.io.navigation.packetforecaster import PacketForecaster

    rules, max_hist = item[0], item[1]
    parties = item[2] if len(item) > 2 else None
    g = RefGrammar(rules, prelude=PRELUDE)
    fan = g.fan()
    vis = _vis_default if parties is None else (lambda key: bool(LETTER[key]) and key[0] in parties)
    letters_g = RefGrammar({k: to_letters(v, vis) for k, v in rules.items() if k not in MSG_RULES})
    refs = [letters_g]
    if parties is not None:
        dr = drop_rules(rules, vis)
        if dr.get("<start>") is not None:
            try:
                cand = RefGrammar(dr)
                viable(cand, "")            # the reference matcher needs a productive grammar
                refs.append(cand)
            except Exception:
                # removing the other parties' branch leaves a rule without a finite derivation (<s> ::= <A:B:m> <s> | <B:A:n> sliced to A):
                # the two readings of slicing disagree about whether the language is empty; there is no reference to judge against
                return {"fan": fan, "states": 0, "transitions": 0, "viol": [], "outcomes": 0, "not_judged": "removal reading is unproductive"}
    res = {"fan": fan, "states": 0, "transitions": 0, "viol": [], "outcomes": set()}
    try:
        spec = build(fan)
        if parties is not None:
            from fandango.language.parse.slice_parties import slice_parties
            if len(item) > 3 and item[3]:
                # a forecaster has already worked on this grammar object before it is sliced (in place): nothing it built may survive
                try:
                    PacketForecaster(spec.grammar).predict(DerivationTree(NonTerminal("<start>")))
                except Exception:
                    pass
            slice_parties(spec.grammar, set(parties), ignore_receivers=True)
    except Exception as e:
        res["spec_error"] = f"{type(e).__name__}: {e}"[:200]
        return res
    grammar = spec.grammar
    if parties is not None and NonTerminal("<start>") not in grammar.rules:
        # everything was sliced away: right iff the kept party sends nothing in any interaction
        if any(viable(letters_g, c) for c in "pqrst" if c in {LETTER[k] for k in LETTER if vis(k)}):
            res["viol"].append({"grammar": fan[len(PRELUDE):], "history": "", "sliced_to": sorted(parties), "kind": "slicing_removed_the_start_symbol",
                                "sig": "slicing_removed_the_start_symbol"})
        res["outcomes"] = 0
        return res
    try:
        forecaster = PacketForecaster(grammar)
    except Exception as e:
        # building the forecaster for a spec the front end (and slicing) accepted must not fail: no forecast can be made at all
        v = {"grammar": fan[len(PRELUDE):], "history": "", "kind": "predict_raises", "error": f"constructing the forecaster: {type(e).__name__}: {e}"[:200],
             "sliced_grammar_has_derivation_cycle": False, "sig": f"forecaster_construction_raises:{type(e).__name__}"}
        if parties is not None:
            v["sliced_to"] = sorted(parties)
        res["viol"].append(v)
        res["outcomes"] = 0
        return res
    alphabet = sorted({LETTER[k] for k in LETTER if k[2] in rules and vis(k)})
    seen = set()
    frontier = [("", DerivationTree(NonTerminal("<start>")))]
    depth = 0
    while frontier and depth <= max_hist:
        nxt = []
        for hist, tree in frontier:
            key = (hist, snap(tree))
            if key in seen:
                continue
            seen.add(key)
            res["states"] += 1
            base = {"grammar": fan[len(PRELUDE):], "history": hist}
            if parties is not None:
                base["sliced_to"] = sorted(parties)
                if len(item) > 3 and item[3]:
                    base["forecast_before_slicing"] = True
            try:
                with time_limit(20), AdmissionCounter(200_000):
                    pred = forecaster.predict(tree)
            except (Budget, Timeout):
                # the forecaster re-parses the history and enumerates every derivation; for ambiguous repetitions their number
                # grows exponentially with the history, so a budget overrun is a limit of this exploration, not a verdict
                # (termination is C06's business): the state is not judged and not expanded
                res["budget_skips"] = res.get("budget_skips", 0) + 1
                continue
            except Exception as e:
                cyc = False
                if parties is not None:
                    try:
                        cyc = any(families._derivation_cycle(letters_g, k) for k in letters_g.rules)
                    except Exception:
                        cyc = False
                res["viol"].append(dict(base, kind="predict_raises", error=f"{type(e).__name__}: {e}"[:200], sliced_grammar_has_derivation_cycle=cyc,
                                        sig=f"predict_raises:{type(e).__name__}:cycle={cyc}"))
                continue
            got = set()
            options = []
            for party, fnt in pred.parties_to_packets.items():
                for nt, packet in fnt.nt_to_packet.items():
                    k = (packet.node.sender, packet.node.recipient, nt.name())
                    if k not in LETTER:
                        res["viol"].append(dict(base, kind="unknown_option", option=repr(k), sig="unknown_option"))
                        continue
                    got.add(LETTER[k])
                    if party != packet.node.sender:
                        res["viol"].append(dict(base, kind="option_listed_under_wrong_party", option=repr(k), party=party, sig="option_listed_under_wrong_party"))
                    for path in packet.paths:
                        options.append((LETTER[k], packet, path))
            want = {c for c in alphabet if viable(letters_g, hist + c)}
            complete_want = WordMatcher(letters_g, hist).member()
            complete_got = len(pred.complete_trees) > 0
            if len(refs) > 1 and (got != want or complete_got != complete_want):
                # sliced spec: slicing may be read as erasing the other parties' messages or as removing elements that consist
                # of them only; a state is judged against the reading the forecast agrees with, else against the erasing one
                w2 = {c for c in alphabet if viable(refs[1], hist + c)}
                c2 = WordMatcher(refs[1], hist).member()
                if got == w2 and complete_got == c2:
                    want, complete_want = w2, c2
            res["outcomes"].add((tuple(sorted(got)), complete_got))
            if got != want:
                relaxed = {c for c in alphabet if relaxed_viable(letters_g.rules, hist + c)}
                explained = bool(got - want) and not (want - got) and got == relaxed
                res["viol"].append(dict(base, kind="forecast_differs_from_language", predicted=sorted(got), reference=sorted(want),
                                        explained_by_unfinished_iteration_may_stop=explained,
                                        sig=f"forecast:extra={sorted(got - want)}:missing={sorted(want - got)}:unfinished_iter={explained}"[:100]))
            if complete_got != complete_want:
                res["viol"].append(dict(base, kind="completeness_flag_wrong", reported_complete=complete_got, reference=complete_want,
                                        empty_history=(hist == ""), sig=f"complete:got={complete_got}:want={complete_want}:empty_history={hist == ''}"))
            if depth < max_hist:
                for letter, packet, path in options:
                    if letter not in want:
                        continue  # only valid histories are extended
                    res["transitions"] += 1
                    t = copy.deepcopy(path.tree)
                    msg = DerivationTree(NonTerminal(packet.node.symbol.name()), [DerivationTree(Terminal(VALUE[letter]))],
                                         sender=packet.node.sender, recipient=packet.node.recipient)
                    try:
                        t.append(path.path[1:-1], msg)
                    except Exception as e:
                        res["viol"].append(dict(base, kind="mounting_path_invalid", letter=letter, error=f"{type(e).__name__}: {e}"[:150], sig="mounting_path_invalid"))
                        continue
                    letters_now = "".join(LETTER[(m.sender, m.recipient, m.msg.symbol.name())] for m in t.protocol_msgs())
                    if letters_now != hist + letter:
                        res["viol"].append(dict(base, kind="mounted_tree_has_wrong_history", letter=letter, tree_history=letters_now, sig="mounted_tree_has_wrong_history"))
                        continue
                    nxt.append((hist + letter, t))
        frontier = nxt
        depth += 1
    res["outcomes"] = len(res["outcomes"])
    return res


def run(ctx: Ctx) -> None:
    fam = family(ctx.tier)
    items = [(r, 5 if ctx.quick else 6) for r in fam]
    # the same grammars sliced to one party (the `parties=` path: keep what that party sends)
    two_party = [r for r in fam if not ({"<m4>", "<m5>", "<m6>"} & set(r))]
    extra = [{"<start>": Seq((M3, M3R)), "<m3>": MSG_RULES["<m3>"]}, {"<start>": Alt((M3, M3R)), "<m3>": MSG_RULES["<m3>"]},
             {"<start>": Seq((M3R, M3, M3R)), "<m3>": MSG_RULES["<m3>"]}]
    sliced_src = extra + (two_party[::2] if ctx.quick else two_party)
    n_sliced = 0
    for r in sliced_src:
        for parties in (("A",), ("B",)):
            items.append((r, 4 if ctx.quick else 5, parties))
            n_sliced += 1
            if n_sliced % 3 == 0:
                items.append((r, 3, parties, True))   # the same, after a forecaster has already been used on the unsliced grammar object
                n_sliced += 1
    items = rotate(items, ctx.seed)
    ctx.log(f"{len(items)} protocol grammars")
    results = pmap_tagged(work, items, chunk=2)
    states = transitions = outcomes = spec_errors = budget_skips = 0
    samples = []
    for r in results:
        if "spec_error" in r:
            spec_errors += 1
            if spec_errors <= 5:
                ctx.notes.append(f"spec rejected: {r['fan'][len(PRELUDE):]!r}: {r['spec_error']}")
            continue
        states += r["states"]
        budget_skips += r.get("budget_skips", 0)
        transitions += r["transitions"]
        outcomes += r["outcomes"]
        for v in r["viol"]:
            ctx.violation(v)
        if len(samples) < 5 and r["states"] > 3:
            samples.append({"grammar": r["fan"][len(PRELUDE):], "states": r["states"], "transitions": r["transitions"]})
    ctx.coverage.update(
        states=states, transitions=transitions, traces_validated_against_impl=states - budget_skips, samples=samples, exhaustive=budget_skips == 0,
        states_not_judged_forecast_budget=budget_skips, grammars=len(items), sliced_specs=n_sliced, spec_errors=spec_errors, distinct_outcomes=outcomes, max_history=5 if ctx.quick else 6,
        rule="state = (message history, history tree) reached by mounting forecast options; every state's forecast and completeness flag is compared with the reference message-level language; "
             "sliced specs (slice_parties to {A} and to {B}) are judged against the projection of the language to the kept party's messages, under either reading of slicing (erase / remove)",
    )
    if budget_skips:
        ctx.cap(f"{budget_skips} states not judged: the forecast needed more than 200 000 parser admissions or 20 s (exponentially many derivations of the history)")
