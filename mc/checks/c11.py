"""C11 — cached evaluations equal fresh evaluations.

Explicit-state BFS over histories that interleave evaluation, mutation, crossover, repair,
in-place edits and the arrival of structurally equal trees that differ in what the hash
ignores, all against ONE long-lived evaluator and constraint objects.  After every
transition every live tree is evaluated by the long-lived evaluator (warm caches) and by a
brand-new spec + evaluator built from the same text; fitness, verdict and failing parts
(as paths) must coincide.
"""
from __future__ import annotations

from mc.common import Ctx, pmap, tag
from mc.explore import bfs_levels, dfs
from mc.fd import DerivationTree, NonTerminal, Terminal, build, leaf_value
from mc.seams import max_repetitions, random_seam
from mc.checks.c10 import kth_resolution, preorder, rebuild, shape, snapf

LEVEL = "model_checking"

SPECS = {
    "computed_rep": ('<start> ::= <n> <item>{int(<n>)}\n<n> ::= "1" | "2" | "3"\n<item> ::= "x" | "y"\nwhere str(<item>) != "y"\n',
                     ["2xx", "3xyx", "1x"]),
    "quantifiers": ('<start> ::= <a>+\n<a> ::= <d> <d>\n<d> ::= "1" | "2"\n'
                    'where forall <p> in <a>: exists <q> in <p>.<d>: str(<q>) == "1"\nwhere any(str(x) == "2" for x in *<d>)\n'
                    'where all(any(str(y) > str(x) for y in *<d>) for x in *<a>)\n',
                    ["1221", "22", "11"]),
    "generator": ('def gen(a):\n    return "c" * (int(str(a)) % 2 + 1)\n<start> ::= <b> <tail>\n<b> ::= "c"+ := gen(<a>)\n<a> ::= "1" | "3" | "2"\n<tail> ::= "t" | "u"\n'
                  'where int(<a>) < 3\nwhere str(<tail>) == "t"\n',
                  ["cct", "ccu", "ct"]),
    # quantifiers that rebind the very symbol they range over (old and new syntax): a binding left over from the tree evaluated
    # before would be found instead of the matches in the tree at hand
    "rebinding": ('<start> ::= <item>+\n<item> ::= <d>\n<d> ::= "1" | "2" | "3"\n'
                  'where forall <item> in <item>: int(<item>) < 3\nwhere all(int(<d>) > 1 for <d> in *<d>)\n',
                  ["22", "13", "31"]),
    "equality": ('<start> ::= <l> "=" <r>\n<l> ::= <d>+\n<r> ::= <d>+\n<d> ::= "1" | "2"\nwhere <l> == <r>\nwhere len(str(<l>)) < 3\n',
                 ["1=1", "12=21", "2=22"]),
}
MAX_TREES = 4
RESOLUTIONS = 4
_CACHE: dict = {}


def long_lived(name, memo=True):
    from fandango.evolution.evaluation import Evaluator
    from mc.fd import disable_constraint_caches

    spec = build(SPECS[name][0])
    if not memo:
        disable_constraint_caches(spec)   # the reference: brand-new constraint objects that never memoise
    ev = Evaluator(spec.grammar, spec.constraints, 1.0, 5, 1.0)
    return spec, ev


def evaluate(ev, tree):
    gen = ev.evaluate_individual(tree)
    emitted = 0
    try:
        while True:
            next(gen)
            emitted += 1
    except StopIteration as st:
        fitness, failing, sugg = st.value
    return fitness, failing, sugg, emitted


def path_of(root, node):
    """index path of `node` below `root` by identity (children and sources)"""
    def rec(t, acc):
        if t is node:
            return acc
        for i, c in enumerate(t._children):
            r = rec(c, acc + (("c", i),))
            if r is not None:
                return r
        for i, c in enumerate(t._sources):
            r = rec(c, acc + (("s", i),))
            if r is not None:
                return r
        return None
    return rec(root, ())


def observation(ev, tree):
    try:
        fitness, failing, _, _ = evaluate(ev, tree)
    except Exception as e:
        return ("raises", type(e).__name__)
    # failing parts as paths (a cache hit may hand back the nodes of a structurally equal tree;
    # consumers address them by path, so the path inside the node's own root is what is compared)
    raw_paths = [path_of(ft.tree.get_root(), ft.tree) for ft in failing]
    paths = sorted(str(p) for p in raw_paths)
    # the verdict each long-lived constraint object gives when asked directly (check() reads .success, which a
    # cached result must report like a fresh one)
    checks = []
    for c in list(ev._hard_constraints) + list(ev._repetition_bounds_constraints):
        try:
            checks.append(bool(c.check(tree)))
        except Exception as e:
            checks.append(type(e).__name__)
    def node_at(t, path):
        for kind, i in path or ():
            seq = t._children if kind == "c" else t._sources
            if i >= len(seq):
                return None
            t = seq[i]
        return t

    # what sits at each reported path in the tree that was evaluated (a memo may hand back nodes of another object)
    shapes = tuple(sorted(repr(shape(n)) if n is not None else "?" for n in (node_at(tree, p) for p in raw_paths if p is not None)))
    return (round(fitness, 12), fitness >= 1.0, tuple(paths), tuple(checks), shapes)


def alphabet():
    ev = []
    ev.append(("new_run",))  # a second fuzz()/generate on the same spec object: new Evaluator, same constraint objects (their caches persist)
    for ti in range(MAX_TREES):
        ev.append(("twin", ti))         # a structurally equal tree built from scratch (as initial_population=[DerivationTree] would supply)
        ev.append(("parsed_twin", ti))  # the same word parsed again (fresh tags / sources)
        ev.append(("edit_leaf", ti))    # in-place edit below an evaluated node
        ev.append(("repair", ti))
        for k in range(RESOLUTIONS):
            ev.append(("mutate", ti, k))
            ev.append(("fuzz", k))
            for tj in range(ti + 1, MAX_TREES):
                ev.append(("crossover", ti, tj, k))
    return sorted(set(ev), key=str)


def apply(name, spec, evaluator, forest, e):
    from fandango.evolution.mutation import SimpleMutation
    from fandango.evolution.crossover import SimpleSubtreeCrossover
    from fandango.evolution.population import PopulationManager

    g = spec.grammar
    op = e[0]
    if op == "new_run":
        evaluator._fitness_cache.clear()
        evaluator._solution_set.clear()
        return True
    if op != "fuzz" and e[1] >= len(forest):
        return False
    if op in ("twin", "parsed_twin", "repair", "mutate", "crossover", "fuzz") and len(forest) >= MAX_TREES:
        return False
    t = forest[e[1]] if op != "fuzz" else None
    if op == "twin":
        forest.append(rebuild(shape(t)))
        return True
    if op == "parsed_twin":
        try:
            u = g.parse(str(t))
            if u is None:
                return False
            g.populate_sources(u)
        except Exception:
            return False
        forest.append(u)
        return True
    if op == "edit_leaf":
        leaves = [n for n in preorder(t) if n.symbol.is_terminal and not n.read_only]
        if not leaves:
            return False
        n = leaves[-1]
        v = leaf_value(n.symbol)
        new = {"x": "y", "y": "x", "1": "2", "2": "1", "t": "u", "u": "t", "3": "1"}.get(v)
        if new is None:
            return False
        n.symbol = Terminal(new)
        return True
    if op == "repair":
        _, _, sugg, _ = evaluate(evaluator, t)
        def body(ch):
            with random_seam(ch), max_repetitions(3):
                return PopulationManager(g, "<start>").fix_individual(t, sugg)[0]
        r = kth_resolution(body, 0)
        if r is None:
            return False
        forest.append(r)
        return True
    if op == "mutate":
        def body(ch):
            with random_seam(ch), max_repetitions(3):
                gen = SimpleMutation().mutate(t, g, evaluator.evaluate_individual, max_nodes=14)
                try:
                    while True:
                        next(gen)
                except StopIteration as st:
                    return st.value
        r = kth_resolution(body, e[2])
        if r is None:
            return False
        forest.append(r)
        return True
    if op == "fuzz":
        def body(ch):
            with random_seam(ch), max_repetitions(3):
                return g.fuzz("<start>", 12)
        r = kth_resolution(body, e[1] * 3)
        if r is None:
            return False
        forest.append(r)
        return True
    if op == "crossover":
        if e[2] >= len(forest):
            return False
        u = forest[e[2]]
        def body(ch):
            with random_seam(ch):
                return SimpleSubtreeCrossover().crossover(g, t, u)
        r = kth_resolution(body, e[3])
        if r is None:
            return False
        forest.append(r[0])
        return True
    raise AssertionError(e)


def step(task):
    (name, hist), e = task
    spec, evaluator = long_lived(name)
    g = spec.grammar
    forest = []
    if name == "generator":  # cannot be parsed back (no converter): seed with two generated trees
        for k in (0, 4):
            def body(ch):
                with random_seam(ch), max_repetitions(3):
                    return g.fuzz("<start>", 12)
            forest.append(kth_resolution(body, k))
    else:
        for w in SPECS[name][1][:2]:
            t = g.parse(w)
            g.populate_sources(t)
            forest.append(t)
    evaluated: list = []

    def eval_all():
        for t in forest:
            observation(evaluator, t)
            rec = (hash(t), strip(t, True, True), strip(t, True, False), strip(t, False, True), strip(t, False, False))
            if rec not in evaluated:
                evaluated.append(rec)  # what the tree looked like WHEN it was evaluated (it may be edited in place later)
    eval_all()
    for h in hist:
        try:
            apply(name, spec, evaluator, forest, h)
        except Exception:
            pass
        eval_all()
    try:
        enabled = apply(name, spec, evaluator, forest, e)
    except Exception as ex:
        return (("raised", type(ex).__name__), None, True)  # operator errors are C01/C16 matters, not cache consistency
    if not enabled:
        return (None, None, False)
    viol = None
    for i, t in enumerate(forest):
        warm = observation(evaluator, t)
        fspec, fev = long_lived(name, memo=False)
        fresh = observation(fev, t)
        if warm[:4] != fresh[:4]:
            # is there an earlier evaluated tree with the same hash that differs only in what the
            # hash ignores (generator arguments kept in .sources / repetition tags)?
            twin = None
            me = (hash(t), strip(t, True, True), strip(t, True, False), strip(t, False, True), strip(t, False, False))
            for u in evaluated:
                if u[0] != me[0] or u[1] == me[1]:
                    continue
                if u[2] == me[2]:
                    twin = "sources"
                elif u[3] == me[3]:
                    twin = "repetition_tags"
                elif u[4] == me[4]:
                    twin = "sources_and_repetition_tags"
                if twin:
                    break
            positions_only = (len(warm) == 5 and len(fresh) == 5 and warm[:2] == fresh[:2] and warm[3] == fresh[3] and warm[4] == fresh[4] and warm[2] != fresh[2])
            viol = {"kind": "cached_evaluation_differs_from_fresh", "spec": name, "history": [list(h) for h in hist], "op": list(e), "tree": str(t),
                    "cached": repr(warm[:4]), "fresh": repr(fresh[:4]), "equal_hash_tree_differs_in": twin,
                    "failing_parts_differ_only_in_position_of_equal_subtrees": positions_only,
                    "sig": f"{name}:{e[0]}:twin={twin}:cached={warm[:2]}:fresh={fresh[:2]}"}
            break
    ren2: dict = {}
    canon = (tuple(snapf(t, ren2) for t in forest), tuple(sorted((k, round(v[0], 9)) for k, v in evaluator._fitness_cache.items())))
    if viol:
        tag(viol, "mc.checks.c11", "step", task)
    return (canon, viol, True)


def strip(t, tags, sources):
    """snapshot with/without repetition tags and sources"""
    s = t.symbol
    head = ("T", leaf_value(s)) if s.is_terminal else ("N", s.name())
    return head + (t._sender, t._recipient,
                   tuple((a, c) for (a, b, c) in t.origin_repetitions) if tags else (),
                   tuple(strip(c, tags, sources) for c in t._children),
                   tuple(strip(c, tags, sources) for c in t._sources) if sources else ())


def run(ctx: Ctx) -> None:
    depth = 2 if ctx.quick else 3
    alpha = alphabet()
    states = transitions = 0
    samples = []
    for name in SPECS:
        def pm(fn, tasks, name=name):
            return pmap(step, [((name, h), ev) for (h, ev) in tasks], chunk=4)
        r = bfs_levels(step, alpha, depth, pm)
        ctx.log(f"{name}: states={r['states']} transitions={r['transitions']} violations={len(r['violations'])}")
        states += r["states"]
        transitions += r["transitions"]
        for v in r["violations"]:
            ctx.violation(v)
        samples += [{"spec": name, "history": s} for s in r["samples"][:2]]
    ctx.coverage.update(
        states=states, transitions=transitions, traces_validated_against_impl=transitions, samples=samples, exhaustive=True, depth=depth,
        alphabet=len(alpha), specs=list(SPECS),
        rule="state = forest of live trees + content of the long-lived evaluator's fitness cache; after every transition every live tree is evaluated warm and fresh "
             "(new spec object, new constraint objects, empty caches) and fitness / verdict / failing paths are compared",
    )
