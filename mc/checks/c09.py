"""C09 — a tree's value is the in-order concatenation of its leaves.

Bounded-exhaustive over tree shapes x accessor histories:
  every sequence of <= 3 (quick) / 4 (thorough) atoms over text / bytes / bit leaves
  x every nesting of that sequence into <= 3 levels (all contiguous bracketings, unary wrappers)
  x every order of the accessors str, bytes, to_bits, int on ONE tree object (24 orders).
Oracle: RefValue (in-order leaf fold written from the property statement); results must
not depend on nesting or accessor order; the tree and every Terminal value object are
unchanged afterwards.
"""
from __future__ import annotations

import itertools

from mc.common import Ctx, pmap, tag, pmap_tagged
from mc.fd import DerivationTree, NonTerminal, Terminal, snap_full

LEVEL = "model_checking"

# atoms: each is a tuple of "pieces"; a piece is a leaf value or a ("node", name, leaves) composite
ATOMS = {
    "a": ("a",),
    "e'": ("é",),
    "empty": ("",),
    "x01": (b"\x01",),
    "xff": (b"\xff",),
    "xc3a9": (b"\xc3\xa9",),   # valid UTF-8 ('é') whose Latin-1 reading is two characters: a view under another encoding is observably different
    "b0": (0,),
    "b1": (1,),
    "nib": (("node", "<nib>", (1, 0, 1, 0)),),
    "byte8": (("node", "<b8>", (1, 1, 1, 1, 1, 1, 1, 1)),),
    "zero8": (("node", "<z8>", (0, 0, 0, 0, 0, 0, 0, 0)),),
}
ACCESSORS = ("str", "bytes", "bits", "int")


def leaves_of(atom_names):
    out = []
    for n in atom_names:
        for piece in ATOMS[n]:
            if isinstance(piece, tuple):
                out.extend(piece[2])
            else:
                out.append(piece)
    return out


# ---------------------------------------------------------------- RefValue
class RefError(Exception):
    pass


def ref_bits(leaves):
    out = []
    pending = 0
    for v in leaves:
        if isinstance(v, int):
            out.append(str(v))
            pending = (pending + 1) % 8
            continue
        if pending:
            raise RefError("bytes needed at a non byte-aligned position")
        if isinstance(v, bytes):
            out.append("".join(f"{b:08b}" for b in v))
        else:
            out.append("".join(f"{b:08b}" for b in v.encode("utf-8")))
    return "".join(out)  # trailing bits that do not fill a byte are fine for the bit view


def ref_bytes(leaves):
    out = bytearray()
    pending = 0
    acc = 0
    for v in leaves:
        if isinstance(v, int):
            acc = (acc << 1) | v
            pending += 1
            if pending == 8:
                out.append(acc)
                acc = pending = 0
            continue
        if pending:
            raise RefError("bytes needed at a non byte-aligned position")
        out += v if isinstance(v, bytes) else v.encode("utf-8")
    if pending:
        raise RefError("bits do not fill a byte")
    return bytes(out)


def ref_str(leaves):
    if all(isinstance(v, str) for v in leaves):
        return "".join(leaves)
    return ref_bytes(leaves).decode("latin-1")


def ref_int(leaves):
    nonempty = [v for v in leaves]
    if nonempty and all(isinstance(v, int) for v in nonempty):
        return int("".join(map(str, nonempty)), 2)
    try:
        return int(ref_str(leaves))
    except ValueError:
        raise RefError("not an integer")


REF = {"str": ref_str, "bytes": ref_bytes, "bits": ref_bits, "int": ref_int}


def ref_all(leaves):
    out = {}
    for a in ACCESSORS:
        try:
            out[a] = ("ok", REF[a](leaves))
        except RefError as e:
            out[a] = ("err", str(e))
    return out


# ---------------------------------------------------------------- shapes
def shapes(items, depth):
    """All nestings of the contiguous item sequence below one root, up to `depth` levels of
    inner nodes below the root.  A shape is a list of children; a child is an item index or
    ("w", [children])."""
    n = len(items)
    if n == 0:
        yield []
        return

    def parts(lo):
        if lo == n:
            yield []
            return
        for hi in range(lo + 1, n + 1):
            for rest in parts(hi):
                yield [(lo, hi)] + rest

    for p in parts(0):
        opts = []
        for (lo, hi) in p:
            block = list(range(lo, hi))
            o = []
            if hi - lo == 1:
                o.append(block[0])
            if depth > 0:
                for sub in shapes(block, depth - 1):
                    # sub is expressed in local indices of `block`
                    o.append(("w", _reindex(sub, block)))
            opts.append(o)
        for combo in itertools.product(*opts):
            yield list(combo)


def _reindex(sub, block):
    out = []
    for c in sub:
        if isinstance(c, tuple):
            out.append(("w", _reindex(c[1], block)))
        else:
            out.append(block[c])
    return out


def build_tree(shape, atom_names, counter=[0]):
    def mk_piece(piece):
        if isinstance(piece, tuple):
            return [DerivationTree(NonTerminal(piece[1]), [DerivationTree(Terminal(v)) for v in piece[2]])]
        return [DerivationTree(Terminal(piece))]

    def mk(children):
        out = []
        for c in children:
            if isinstance(c, tuple):
                out.append(DerivationTree(NonTerminal("<w>"), mk(c[1])))
            else:
                for piece in ATOMS[atom_names[c]]:
                    out.extend(mk_piece(piece))
        return out

    return DerivationTree(NonTerminal("<root>"), mk(shape))


def call(tree, a):
    try:
        if a == "str":
            return ("ok", str(tree))
        if a == "bytes":
            return ("ok", bytes(tree))
        if a == "bits":
            return ("ok", tree.to_bits())
        if a == "int":
            return ("ok", int(tree))
    except Exception as e:
        return ("err", type(e).__name__)
    raise AssertionError(a)


def leaf_objects(tree, acc):
    if tree.symbol.is_terminal:
        v = tree.symbol.value()
        acc.append((v, v._value, list(v._trailing_bits)))
    for c in tree._children:
        leaf_objects(c, acc)
    return acc


ORDERS = list(itertools.permutations(ACCESSORS))
ROTATIONS = [ACCESSORS[i:] + ACCESSORS[:i] for i in range(4)]
# a view requested with a non-default encoding BEFORE the four default views (on the root, or on every node of the tree):
# "computing a value never changes a later result" includes values computed under another encoding
PRELUDES = (None, "root_str_utf8", "nodes_str_utf8", "nodes_bytes_latin1")


def all_nodes(t, acc):
    acc.append(t)
    for c in t._children:
        all_nodes(c, acc)
    return acc


def prelude_call(node, kind):
    try:
        if kind.endswith("str_utf8"):
            return ("ok", node.to_string(encoding="utf-8"))
        if kind.endswith("bytes_latin1"):
            return ("ok", node.to_bytes(encoding="latin-1"))
        if kind.endswith("bits_utf16"):
            return ("ok", node.to_bits(encoding="utf-16-be"))
    except Exception as e:
        return ("err", type(e).__name__)
    raise AssertionError(kind)


def work(item):
    atom_names, max_depth = item
    leaves = leaves_of(atom_names)
    want = ref_all(leaves)
    res = {"seqs": 0, "shapes": 0, "viol": [], "outcomes": set()}
    items = list(range(len(atom_names)))
    seen_results = {}
    for shape in shapes(items, max_depth):
        res["shapes"] += 1
        for prelude, order in [(None, o) for o in ORDERS] + [(p, o) for p in PRELUDES[1:] for o in ROTATIONS]:
            res["seqs"] += 1
            tree = build_tree(shape, atom_names)
            before = snap_full(tree)
            leaf_before = leaf_objects(tree, [])
            got = {}
            if prelude is not None:
                nodes = all_nodes(tree, []) if prelude.startswith("nodes_") else [tree]
                # the results under another encoding are not judged (the property fixes the default encodings only); what is judged is
                # that the four default views afterwards are what they would have been without these requests
                for n in nodes:
                    prelude_call(n, prelude)
            for a in order:
                got[a] = call(tree, a)
            after = snap_full(tree)
            base = {"atoms": list(atom_names), "leaves": repr(leaves), "shape": repr(shape), "order": list(order), "prelude": prelude}
            if before != after:
                res["viol"].append(dict(base, kind="accessor_modified_tree", sig="accessor_modified_tree"))
            for (v, val0, tb0) in leaf_before:
                if v._value != val0 or list(v._trailing_bits) != tb0:
                    res["viol"].append(dict(base, kind="accessor_modified_terminal_value", sig="accessor_modified_terminal_value"))
                    break
            for a in ACCESSORS:
                g, w = got[a], want[a]
                ok = (g[0] == w[0]) and (g[0] == "err" or g[1] == w[1])
                if not ok:
                    text_then_bits = _text_before_bits(leaves)
                    res["viol"].append(dict(base, kind="wrong_value", accessor=a, got=repr(g), want=repr(w),
                                            nonlatin_text_followed_by_bits=text_then_bits and a == "str" and g[0] == "ok" and g[1] == _latin1_model(leaves),
                                            bit_run_spans_subtrees_then_bytes=(g[0] == "err" and w[0] == "ok" and _locally_misaligned(shape, atom_names)),
                                            sig=f"wrong_value:{a}:{g[0]}-vs-{w[0]}"))
            if prelude is not None:
                # differential against the initial state: after this history every NODE (not only the root) must give the views a
                # freshly built, never queried copy of the tree gives
                fresh = all_nodes(build_tree(shape, atom_names), [])
                for k, (n_old, n_new) in enumerate(zip(all_nodes(tree, []), fresh)):
                    for a in ("str", "bytes"):
                        if call(n_old, a) != call(n_new, a):
                            res["viol"].append(dict(base, kind="earlier_view_changes_later_result", node_preorder_index=k, accessor=a,
                                                    after_history=repr(call(n_old, a)), fresh=repr(call(n_new, a)), sig=f"earlier_view_changes_later_result:{a}"))
                            break
                    else:
                        continue
                    break
            key = tuple(sorted((a, repr(got[a])) for a in ACCESSORS))
            res["outcomes"].add(key)
            prev = seen_results.setdefault("all", key)
            if prev != key and not any(v.get("kind") == "wrong_value" for v in res["viol"][-8:]):
                res["viol"].append(dict(base, kind="result_depends_on_nesting_or_order", sig="result_depends_on_nesting_or_order"))
    res["outcomes"] = len(res["outcomes"])
    return res


def _locally_misaligned(shape, atom_names):
    """some inner subtree, taken on its own, needs bytes/text at a position that is not
    byte-aligned relative to the subtree's own start (the bit run started in an earlier sibling)"""
    found = [False]

    def leaves_under(children):
        out = []
        for c in children:
            if isinstance(c, tuple):
                sub = leaves_under(c[1])
                try:
                    ref_bits(sub)
                except RefError:
                    found[0] = True
                out.extend(sub)
            else:
                out.extend(leaves_of([atom_names[c]]))
        return out

    leaves_under(shape)
    return found[0]


def _latin1_model(leaves):
    """what the known defect computes for str(): text leaves followed only by bit leaves -> the text is kept as it
    is (Latin-1 round trip) and the bits are appended as Latin-1 characters; None if the leaves have another form"""
    i = 0
    while i < len(leaves) and isinstance(leaves[i], str):
        i += 1
    bits = leaves[i:]
    if i == 0 or not bits or not all(isinstance(b, int) for b in bits) or len(bits) % 8:
        return None
    try:
        "".join(leaves[:i]).encode("latin-1")
    except UnicodeEncodeError:
        return None
    return "".join(leaves[:i]) + bytes(int("".join(map(str, bits[k:k + 8])), 2) for k in range(0, len(bits), 8)).decode("latin-1")


def _text_before_bits(leaves):
    """non-ASCII text directly followed (after the text run) by bit leaves"""
    seen_nonascii = False
    for v in leaves:
        if isinstance(v, str):
            if any(ord(c) > 127 for c in v):
                seen_nonascii = True
        elif isinstance(v, int):
            if seen_nonascii:
                return True
        else:
            seen_nonascii = False
    return False


def run(ctx: Ctx) -> None:
    k = 3 if ctx.quick else 4
    names = list(ATOMS)
    items = []
    core4 = ["a", "e'", "x01", "b1", "nib", "zero8"]   # length-4 sequences: over a core of the atoms (10^4 sequences x shapes x 24 orders took > 90 min)
    for L in range(1, k + 1):
        for combo in itertools.product(names if L < 4 else core4, repeat=L):
            items.append((combo, 2 if (ctx.quick or L == 4) else 3))
    results = pmap_tagged(work, items, chunk=8)
    seqs = shapes_n = outcomes = 0
    for r in results:
        seqs += r["seqs"]
        shapes_n += r["shapes"]
        outcomes += r["outcomes"]
        for v in r["viol"]:
            ctx.violation(v)
    ctx.coverage.update(
        states=shapes_n, transitions=seqs * 4, traces_validated_against_impl=seqs,
        samples=[{"atoms": ["nib", "nib", "x01"], "shape": "[0, ('w', [1, 2])]", "order": list(ORDERS[5])}],
        exhaustive=True, leaf_sequences=len(items), tree_shapes=shapes_n, accessor_sequences=seqs, distinct_outcomes=outcomes,
        rule="state = tree shape over an atom sequence; transition = one accessor call in one of the 24 accessor orders, or in one of 4 rotations after a view under a non-default encoding was requested on the root / on every node; every result compared with RefValue",
    )
    ctx.assumptions.append("RefValue: text leaves UTF-8 next to binary, string view of a binary tree = Latin-1 of its bytes, error iff bytes needed at a non-aligned position or bits do not fill a byte")
