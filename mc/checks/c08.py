"""C08 — Python embedded in a spec keeps its Python meaning (small-scope translation validation).

Bounded-exhaustive enumeration of Python programs over a construct grammar: every
expression constructor with every depth-1 expression placed in every operand slot
(precedence / parenthesisation), statement constructors nested to block depth 2, and the same
expressions placed in constraints, generators and repetition bounds.  Oracle: ast.dump of
CPython's parse of the text Fandango will execute == ast.dump of CPython's parse of the source
text (symbol references alpha-renamed), or Fandango rejected the program.
"""
from __future__ import annotations

import ast
import re

from mc.common import Ctx, pmap, rotate, pmap_tagged
import mc.fd  # noqa: F401  (binds fandango to /repo/src)

LEVEL = "translation_validation"

ATOMS = ["a", "1", '"s"']

# expression constructors: (id, template with {0},{1},.. operand slots)
EXPR = [
    *[(f"bin{op}", "$0 " + op + " $1") for op in ["+", "-", "*", "/", "//", "%", "**", "@", "<<", ">>", "&", "|", "^"]],
    ("neg", "-$0"), ("pos", "+$0"), ("inv", "~$0"), ("not", "not $0"),
    *[(f"cmp{i}", "$0 " + op + " $1") for i, op in enumerate(["<", ">", "==", ">=", "<=", "!=", "in", "not in", "is", "is not"])],
    ("cmpchain", "$0 < $1 <= $2"),
    ("and", "$0 and $1"), ("or", "$0 or $1"), ("andor", "$0 and $1 or $2"),
    ("ifexp", "$0 if $1 else $2"),
    ("lambda0", "lambda: $0"), ("lambda1", "lambda q: $0"), ("lambda_default", "lambda q, r=2: $0"), ("lambda_star", "lambda *q: $0"),
    ("lambda_kw", "lambda **q: $0"), ("lambda_posonly", "lambda q, /, r: $0"), ("lambda_kwonly", "lambda q, *, r: $0"),
    ("lambda_all", "lambda q, r=1, *s, t, u=2, **v: $0"), ("lambda_star_kwdefault_first", "lambda *p, r=1, s: $0"), ("lambda_defaults2", "lambda q=1, r=2: $0"),
    ("call1", "f($0)"), ("call2", "f($0, $1)"), ("callkw", "f(k=$0)"), ("callstar", "f(*$0)"), ("callss", "f(**$0)"),
    ("callmix", "f($0, *$1, k=$2, **w)"), ("callgen", "f(q for q in $0)"), ("callcallee", "($0)($1)"),
    ("sub", "$0[$1]"), ("slice2", "$0[$1:$2]"), ("slice3", "$0[$1:$2:$3]"), ("sliceall", "$0[:]"), ("slicestep", "$0[::$1]"),
    ("subtuple", "$0[$1, $2]"), ("slicetuple", "$0[$1:$2, $3]"), ("sliceneg", "$0[-1:]"),
    ("attr", "($0).attr"), ("attrcall", "($0).m($1)"),
    ("list", "[$0, $1]"), ("tuple", "($0, $1)"), ("tuple1", "($0,)"), ("set", "{$0, $1}"), ("dict", "{$0: $1}"), ("dict2", "{$0: $1, $2: $3}"),
    ("dictsplat", "{**$0}"), ("liststar", "[*$0, $1]"), ("empty_tuple", "()"), ("empty_list", "[]"), ("empty_dict", "{}"), ("paren", "($0)"),
    ("listcomp", "[$0 for q in $1]"), ("setcomp", "{$0 for q in $1}"), ("dictcomp", "{$0: $1 for q in $2}"), ("genexp", "($0 for q in $1)"),
    ("compif", "[$0 for q in $1 if $2]"), ("comp2for", "[$0 for q in $1 for r in $2]"), ("compifif", "[$0 for q in $1 if $2 if q]"),
    ("comptarget", "[$0 for q, r in $1]"),
    ("fstr", 'f"{$0}"'), ("fstr_conv", 'f"{$0!r}"'), ("fstr_spec", 'f"{$0:>5}"'), ("fstr_text", 'f"a{$0}b"'), ("fstr_two", 'f"{$0}{$1}"'),
    ("fstr_nested_spec", 'f"{$0:{$1}}"'), ("fstr_braces", 'f"{{x}}{$0}"'), ("fstr_eq", 'f"{$0=}"'), ("fstr_space", 'f"{$0} {$1}"'),
    ("fstr_single", "f'{$0}'"), ("fstr_triple", 'f"""{$0}"""'),
    ("strcat", '"p" "q"'), ("strcat_f", '"p" f"{$0}"'), ("bytes", 'b"p"'), ("rawstr", 'r"\\d"'), ("str_escape", '"\\n\\t\\x41\\u00e9"'), ("str_single", "'it\"s'"),
    ("triple", '"""p\nq"""'),
    ("num_us", "1_000"), ("num_hex", "0x1f"), ("num_oct", "0o17"), ("num_bin", "0b101"), ("num_exp", "1e3"), ("num_float", "1.5"), ("num_imag", "2j"),
    ("num_dotfloat", ".5"), ("num_big", "12345678901234567890"),
    ("ellipsis", "..."), ("none", "None"), ("true", "True"),
    ("walrus", "(q := $0)"), ("await_like", "$0 if $1 else $2 if $3 else a"),
    ("starred_assign_rhs", "[$0, *$1]"),
]

# statement constructors: template with {e} expression slots and {b} block slots
STMT = [
    ("assign", "v = {e}"), ("assign2", "v = w = {e}"), ("assign_tuple", "v, w = {e}"), ("assign_star", "v, *w = {e}"), ("annassign", "v: int = {e}"),
    ("ann_only", "v: int"), ("assign_sub", "a[0] = {e}"), ("assign_attr", "a.b = {e}"),
    *[(f"aug{i}", "v " + op + "= {e}") for i, op in enumerate(["+", "-", "*", "/", "//", "%", "**", "@", "<<", ">>", "&", "|", "^"])],
    ("del", "del v"), ("del2", "del v, w"), ("assert", "assert {e}"), ("assert2", "assert {e}, {e}"), ("raise", "raise {e}"), ("raise_from", "raise {e} from {e}"),
    ("raise_bare", "try:\n    pass\nexcept E:\n    raise"), ("expr", "{e}"), ("pass", "pass"),
    ("import", "import m"), ("import_as", "import m.n as o"), ("import2", "import m, n"), ("from", "from m import a"), ("from_as", "from m import a as b, c"),
    ("from_star", "from m import *"), ("from_rel", "from . import a"), ("from_rel2", "from ..m import a"), ("from_paren", "from m import (a, b)"),
    ("global", "def g():\n    global v\n    v = {e}"), ("nonlocal", "def g():\n    v = 1\n    def h():\n        nonlocal v\n        v = {e}"),
    ("if", "if {e}:\n{b}"), ("ifelse", "if {e}:\n{b}\nelse:\n{b}"), ("ifelif", "if {e}:\n{b}\nelif {e}:\n{b}\nelse:\n{b}"),
    ("while", "while {e}:\n{b}"), ("whileelse", "while {e}:\n{b}\nelse:\n{b}"), ("whilebreak", "while {e}:\n    break\n    continue"),
    ("for", "for q in {e}:\n{b}"), ("forelse", "for q in {e}:\n{b}\nelse:\n{b}"), ("fortuple", "for q, r in {e}:\n{b}"),
    ("try", "try:\n{b}\nexcept E:\n{b}"), ("try_as", "try:\n{b}\nexcept E as e:\n{b}"), ("try_else", "try:\n{b}\nexcept E:\n{b}\nelse:\n{b}"),
    ("try_finally", "try:\n{b}\nfinally:\n{b}"), ("try_full", "try:\n{b}\nexcept (E, F) as e:\n{b}\nexcept:\n{b}\nelse:\n{b}\nfinally:\n{b}"),
    ("with", "with {e}:\n{b}"), ("with_as", "with {e} as q:\n{b}"), ("with2", "with {e} as q, {e} as r:\n{b}"),
    ("def", "def g():\n{b}"), ("def_pos", "def g(q, r):\n{b}"), ("def_default", "def g(q, r=1):\n{b}"), ("def_star", "def g(*q):\n{b}"), ("def_kw", "def g(**q):\n{b}"),
    ("def_kwonly", "def g(q, *, r):\n{b}"), ("def_kwonly_default", "def g(q, *, r=1, s):\n{b}"), ("def_posonly", "def g(q, /, r):\n{b}"),
    ("def_default_star_kwonly", "def g(q, r=1, *s, t):\n{b}"),
    # keyword-only parameters after *args, a defaulted one BEFORE a required one (kw_defaults is index-aligned with kwonlyargs)
    ("def_star_kwdefault_first", "def g(*p, r=1, s):\n{b}"), ("def_star_kw_mixed", "def g(q, *p, r=1, s, t=2, **w):\n{b}"),
    ("def_kwonly_required_last", "def g(*, r=1, s=2, t):\n{b}"), ("def_star_kw_required_first", "def g(*p, r, s=1):\n{b}"),
    ("def_posonly_default", "def g(q, r=1, /, s=2):\n{b}"), ("def_method_star_kw", "class K:\n    def m(self, *p, r=1, s):\n        return {e}"), ("def_all", "def g(q, r=1, /, s=2, *t, u, v=3, **w):\n{b}"),
    ("def_ann", "def g(q: int, r: str = 's') -> bool:\n{b}"), ("def_deco", "@d\ndef g():\n{b}"), ("def_deco2", "@d1\n@d2({e})\ndef g():\n{b}"),
    ("def_return", "def g():\n    return {e}"), ("def_return_none", "def g():\n    return"), ("def_yield", "def g():\n    yield {e}"), ("def_yield_from", "def g():\n    yield from {e}"),
    ("def_doc", 'def g():\n    """doc"""\n    return {e}'), ("def_nested", "def g():\n    def h(q):\n        return {e}\n    return h"),
    ("async_def", "async def g():\n    await {e}"), ("async_for", "async def g():\n    async for q in {e}:\n        pass"), ("async_with", "async def g():\n    async with {e} as q:\n        pass"),
    ("class", "class K:\n{b}"), ("class_base", "class K(B):\n{b}"), ("class_meta", "class K(B, metaclass=M):\n{b}"), ("class_deco", "@d\nclass K:\n{b}"),
    ("class_method", "class K:\n    def m(self, q=1):\n        return {e}"), ("class_attr", "class K:\n    x: int = {e}\n    y = {e}"),
    ("semicolon", "v = {e}; w = {e}"), ("lambda_stmt", "v = lambda q, r=2: q"), ("comment", "v = {e}  # comment"), ("line_cont", "v = ({e} +\n     {e})"),
    ("backslash_cont", "v = {e} + \\\n    {e}"),
    ("match", "match {e}:\n    case 1:\n        pass"), ("type_alias", "type X = int"), ("walrus_stmt", "if (q := {e}):\n    pass"),
]


def fill(template: str, fillers: list) -> str:
    t = template
    for i, f in enumerate(fillers):
        t = t.replace("$" + str(i), f)
    return t


def slots(template: str) -> int:
    return len(set(re.findall(r"\$(\d)", template)))


def depth1() -> list:
    out = []
    for cid, tpl in EXPR:
        n = slots(tpl)
        out.append((cid, fill(tpl, [ATOMS[i % len(ATOMS)] for i in range(n)])))
    return out


def programs(tier: str) -> list:
    """(id, kind, source) — kind in expr | stmt | constraint | generator | repetition"""
    progs = []
    d1 = depth1()
    for cid, src in d1:
        progs.append((cid, "expr", src))
    inner = d1   # (the quick tier used to take INNER_QUICK only; the full product costs 40 s and is now the quick tier)
    for cid, tpl in EXPR:
        n = slots(tpl)
        for s in range(n):
            for iid, isrc in inner:
                fillers = [ATOMS[i % len(ATOMS)] for i in range(n)]
                fillers[s] = isrc
                if (cid.startswith("fstr") or cid == "strcat_f") and (isrc.startswith("{") or isrc.endswith("}")):
                    # a display directly inside a replacement field: "{{" is an escaped brace in Python, so the unspaced text is a
                    # different (still valid) program; the display itself needs spaces
                    progs.append((f"{cid}[{s}]<-{iid}~esc", "expr", fill(tpl, fillers)))
                    fillers[s] = " " + isrc + " "
                progs.append((f"{cid}[{s}]<-{iid}", "expr", fill(tpl, fillers)))
    if tier != "quick":
        # depth 3 over the operator core: outer[s] <- mid[t] <- inner, every slot (what precedence / parenthesisation bugs need)
        core = [(cid, tpl) for cid, tpl in EXPR if cid in INNER_QUICK and slots(tpl) >= 1]
        d1map = dict(d1)
        for cid, tpl in core:
            n = slots(tpl)
            for s_ in range(n):
                for mid, mtpl in core:
                    m = slots(mtpl)
                    for t_ in range(m):
                        for iid in sorted(INNER_QUICK):
                            if iid not in d1map:
                                continue
                            mf = [ATOMS[i % len(ATOMS)] for i in range(m)]
                            mf[t_] = d1map[iid]
                            msrc = fill(mtpl, mf)
                            if (cid.startswith("fstr") or mid.startswith("fstr")) and ("{" in d1map[iid] or "{" in msrc[:1] or msrc.endswith("}")):
                                continue
                            of = [ATOMS[i % len(ATOMS)] for i in range(n)]
                            of[s_] = msrc
                            progs.append((f"{cid}[{s_}]<-{mid}[{t_}]<-{iid}", "expr", fill(tpl, of)))
    # statements: expression slots get one plain and (thorough) a few structured expressions, blocks get simple bodies or another compound statement
    d1_by_src = {src: cid for cid, src in d1}
    exprs_for_stmt = ["a", "a + 1", "f(a, 1)", "f(k=a)", "lambda q, r=2: a", "[a for q in 1]", 'f"{a}"']
    blocks1 = ["    pass"]
    for sid, tpl in STMT:
        for e in exprs_for_stmt:
            for b in blocks1:
                # the id names the embedded depth-1 expression construct (so that a failure can be attributed to it)
                pid = sid if e == "a" else (f"{sid}[0]<-{d1_by_src[e]}" if e in d1_by_src else sid + ":" + e)
                progs.append((pid, "stmt", tpl.replace("{e}", e).replace("{b}", b)))
    # block depth 2: every compound statement inside every block slot of every compound statement
    compound = [(sid, tpl) for sid, tpl in STMT if "{b}" in tpl]
    inner_c = compound
    for sid, tpl in compound:
        for iid, itpl in inner_c:
            body = itpl.replace("{e}", "a").replace("{b}", "    v = 1")
            body = "\n".join("    " + ln for ln in body.split("\n"))
            progs.append((f"{sid}{{{iid}}}", "stmt", tpl.replace("{e}", "a").replace("{b}", body)))
    # the same expressions in constraints / generators / repetition bounds, with a symbol reference
    # (a symbol directly followed by [..] or .name is Fandango selector syntax, not Python: those constructs are left out here)
    no_symbol_ctx = {"sub", "slice2", "slice3", "sliceall", "slicestep", "subtuple", "slicetuple", "sliceneg", "attr", "attrcall", "fstr_text", "callcallee",
                     "callstar"}  # f(*<a>) is Fandango's star selection (all matches as one list), not Python unpacking
    for cid, src in d1:
        if cid in no_symbol_ctx:
            continue
        if "a" in re.findall(r"\ba\b", src):
            progs.append((cid, "constraint", src))
            progs.append((cid, "generator", src))
    for cid, src in d1[:40]:
        if cid in no_symbol_ctx:
            continue
        if "a" in re.findall(r"\ba\b", src):
            progs.append((cid, "repetition", src))
    seen, res = set(), []
    for p in progs:
        if (p[1], p[2]) not in seen:
            seen.add((p[1], p[2]))
            res.append(p)
    return res


INNER_QUICK = {"bin+", "bin*", "bin**", "neg", "not", "cmp0", "cmp6", "and", "or", "ifexp", "lambda_default", "call1", "sub", "slice2", "attr", "tuple",
               "listcomp", "genexp", "fstr", "num_us", "walrus", "strcat", "dict", "liststar"}


class _Fold(ast.NodeTransformer):
    """an f-string without replacement fields is the same value as a plain string constant"""

    def visit_JoinedStr(self, node: ast.JoinedStr) -> ast.AST:
        self.generic_visit(node)
        if all(isinstance(v, ast.Constant) and isinstance(v.value, str) for v in node.values):
            return ast.Constant("".join(v.value for v in node.values))
        # adjacent constant parts are merged (CPython already does so when parsing)
        return node


def norm(tree: ast.AST) -> str:
    return ast.dump(_Fold().visit(tree), annotate_fields=True, include_attributes=False)


def translate(kind: str, src: str):
    """returns (status, text Fandango will execute, text CPython should see)"""
    from fandango.language.parse.parse_tree import parse_tree
    from fandango.language.parse.spec import CachedFandangoSpec

    if kind in ("expr", "stmt"):
        py = ("v = " + src) if kind == "expr" else src
        text = '<start> ::= "x"\n' + py + "\n"
        tree = parse_tree("<c08>", text)
        spec = CachedFandangoSpec(tree, text, filename="<c08>")
        return "ok", spec.code_text, py
    from mc.fd import build
    nt = "<x>"
    e = re.sub(r"\ba\b", nt, src)
    ref = re.sub(r"\ba\b", "NTX", src)
    if kind == "constraint":
        text = '<start> ::= <x>\n<x> ::= "1"\nwhere bool(' + e + ")\n"
        spec = build(text)
        c = spec.constraints[0]
        expr = getattr(c, "expression", None)
        if expr is None:
            return "other_constraint_class", type(c).__name__, ""
        names = list(c.searches.keys())
        for nme in names:
            expr = expr.replace(nme, "NTX")
        return "ok", expr, "bool(" + ref + ")"
    if kind == "generator":
        text = '<start> ::= <y>\n<y> ::= "1" := ' + e + '\n<x> ::= "1"\n'
        spec = build(text)
        from fandango.language.symbols import NonTerminal
        gen = spec.grammar.generators[NonTerminal("<y>")]
        call = gen.call
        for nme in gen.nonterminals:
            call = call.replace(nme, "NTX")
        return "ok", call, ref
    if kind == "repetition":
        text = '<start> ::= <x> "y"{' + e + '}\n<x> ::= "1"\n'
        spec = build(text)
        from fandango.constraints.repetition_bounds import RepetitionBoundsConstraint
        rc = [c for c in spec.constraints if isinstance(c, RepetitionBoundsConstraint)]
        if not rc:
            return "no_repetition_constraint", "", ""
        expr, _, searches = rc[0].expr_data_min
        for nme in searches:
            expr = expr.replace(nme, "NTX")
        return "ok", expr, ref
    raise AssertionError(kind)


def work(item):
    pid, kind, src = item
    out = {"id": pid, "kind": kind, "src": src, "status": None, "viol": None}
    try:
        ast.parse(("v = " + src) if kind != "stmt" else src)
    except SyntaxError:
        out["status"] = "not_python"  # CPython itself rejects it (e.g. await outside async): nothing to compare
        return out
    try:
        status, got_text, want_text = translate(kind, src)
    except Exception as e:
        out["status"] = "rejected:" + type(e).__name__
        return out
    if status != "ok":
        out["status"] = status
        return out
    try:
        got = norm(ast.parse(got_text))
    except SyntaxError as e:
        out["status"] = "accepted"
        out["viol"] = {"kind": "translated_code_is_not_python", "construct": pid, "where": kind, "source": src, "fandango_runs": got_text[:200],
                       "sig": f"not_python:{pid}"}
        return out
    want = norm(ast.parse(want_text))
    out["status"] = "accepted"
    if got != want:
        out["viol"] = {"kind": "python_meaning_changed", "construct": pid, "where": kind, "source": src, "fandango_runs": got_text[:300],
                       "sig": f"changed:{kind}:{pid}"}
    return out


def culprit(pid: str, bad_d1: set) -> str:
    """the depth-1 construct a failing program is attributed to (outer first, then inner)"""
    if pid.endswith("~esc"):
        # the program contains escaped braces next to a replacement field: the construct 'fstr_braces'
        return "fstr_braces" if "fstr_braces" in bad_d1 else pid
    if "<-" in pid:
        # outer[s]<-mid[t]<-inner (two or three levels): the outermost construct that fails by itself
        for part in pid.split("<-"):
            name = re.sub(r"\[\d\]$", "", part)
            if name in bad_d1:
                return name
        return pid  # a genuine combination (precedence) failure
    m = re.match(r"^([^{:]*)\{(.*)\}$", pid)
    if m:
        outer, inner = m.groups()
        if outer in bad_d1:
            return outer
        if inner in bad_d1:
            return inner
        return pid
    base = pid.split(":")[0]
    return base


# ---- execution differential: the same AST can still mean something else if the code is compiled or run in another
# environment (compiler flags inherited by exec, namespace layout).  Each program leaves its observation in RESULT.
EXEC_PROGRAMS = [
    ("def_annotations", "def f(x: 1 + 1, y: 'sv' = 3) -> 4:\n    pass\nRESULT = sorted(f.__annotations__.items())"),
    ("class_annotations", "class K:\n    a: int = 1\n    b: 2 = 2\nRESULT = sorted((k, repr(v)) for k, v in K.__annotations__.items())"),
    ("module_annotations", "v: int = 5\nRESULT = sorted((k, repr(t)) for k, t in __annotations__.items())"),
    ("annotation_evaluated_for_effect", "L = []\ndef g(x: L.append(1)):\n    pass\nRESULT = L"),
    ("annotation_names_undefined", "def h(x: NoSuchName):\n    pass\nRESULT = 1"),
    ("default_evaluated_at_def", "L = []\ndef d(x=L.append(2)):\n    pass\nRESULT = L"),
    ("closure_nonlocal", "def mk():\n    c = 0\n    def inc():\n        nonlocal c\n        c += 1\n        return c\n    return inc\ni = mk()\ni()\nRESULT = i()"),
    ("function_reads_module_global", "x = 5\ndef f():\n    return x\nRESULT = f()"),
    ("comprehension_scope", "x = 5\nRESULT = ([x for x in range(3)], x)"),
    ("class_body_scope", "y = 1\nclass C:\n    y = 2\n    z = [y for _ in range(1)]\nRESULT = C.z"),
    ("assert_enabled", "try:\n    assert False\nexcept AssertionError:\n    RESULT = 'raised'\nelse:\n    RESULT = 'skipped'"),
    ("debug_flag", "RESULT = __debug__"),
    ("name_is_main", "RESULT = __name__"),
    ("string_escapes", "RESULT = ('\\N{BULLET}', b'\\x00', r'\\n', '\\u00e9')"),
    ("true_division", "RESULT = (1 / 2, 1 // 2, -7 % 3)"),
    ("generator_stop", "def g():\n    raise StopIteration\n    yield 1\ntry:\n    list(g())\n    RESULT = 'swallowed'\nexcept RuntimeError:\n    RESULT = 'RuntimeError'"),
    ("global_statement", "n = 0\ndef bump():\n    global n\n    n += 1\nbump()\nbump()\nRESULT = n"),
    ("decorator_order", "T = []\ndef d1(f):\n    T.append(1)\n    return f\ndef d2(f):\n    T.append(2)\n    return f\n@d1\n@d2\ndef f():\n    pass\nRESULT = T"),
    ("try_else_finally_order", "T = []\ntry:\n    T.append('t')\nexcept ValueError:\n    T.append('x')\nelse:\n    T.append('e')\nfinally:\n    T.append('f')\nRESULT = T"),
    ("kwonly_defaults", "def f(a, b=2, *c, d, e=5, **g):\n    return (a, b, c, d, e, g)\nRESULT = f(1, d=4, z=9)"),
    ("star_unpacking", "a, *b = [1, 2, 3]\nRESULT = (a, b, [*b, 0], {**{'k': 1}})"),
]


def exec_work(item):
    from mc.fd import build
    name, text = item
    ref: dict = {"__name__": "__main__"}
    try:
        exec(compile(text, "<c08>", "exec", dont_inherit=True), ref)
        want = ("value", repr(ref.get("RESULT")))
    except Exception as e:
        want = ("raises", type(e).__name__)
    try:
        spec = build(text + '\n<start> ::= "a"\n')
        env = spec.grammar.get_spec_env()[0]
        got = ("value", repr(env.get("RESULT")))
    except Exception as e:
        got = ("raises", type(e).__name__)
    out = {"name": name, "viol": None, "want": want}
    if got != want:
        out["viol"] = {"kind": "python_runs_differently", "construct": name, "where": "exec", "source": text, "cpython": list(want), "fandango": list(got),
                       "sig": f"python_runs_differently:{name}"}
    return out


def run(ctx: Ctx) -> None:
    progs = rotate(programs(ctx.tier), ctx.seed)
    ctx.log(f"{len(progs)} programs")
    results = pmap_tagged(work, progs, chunk=16)
    accepted = rejected = notpy = 0
    rej = {}
    viols = []
    for r in results:
        if r["status"] == "accepted":
            accepted += 1
        elif r["status"] == "not_python":
            notpy += 1
        else:
            rejected += 1
            rej.setdefault(r["status"], []).append(f"{r['kind']}:{r['id']}")
        if r["viol"]:
            viols.append(r["viol"])
    exec_res = pmap_tagged(exec_work, EXEC_PROGRAMS, chunk=4)
    exec_viols = [r["viol"] for r in exec_res if r["viol"]]
    bad_d1 = {v["construct"] for v in viols if "<-" not in v["construct"] and "{" not in v["construct"]}
    bad_d1 |= {b.split(":")[0] for b in bad_d1}
    for v in viols:
        v["culprit"] = culprit(v["construct"], bad_d1)
        v["sig"] = f"{v['kind']}:{v['where']}:{v['culprit']}"
        ctx.violation(v)
    for v in exec_viols:
        v["culprit"] = v["construct"]
        ctx.violation(v)
    ctx.coverage.update(
        executed_programs=len(EXEC_PROGRAMS), executed_outcomes={r["name"]: r["want"][1][:40] for r in exec_res},
        programs=len(progs), disagreements_checked=accepted, samples=[{"kind": p[1], "id": p[0], "source": p[2]} for p in progs[:6]],
        accepted=accepted, rejected_by_fandango=rejected, rejected_by_cpython=notpy,
        rejected_constructs={k: sorted(set(x.split("[")[0].split("{")[0] for x in v))[:40] for k, v in rej.items()},
        exhaustive=True,
        explanation="every program of the construct family is translated by the real front end and the resulting text is re-parsed by CPython; ast.dump must equal that of the source",
    )
    ctx.assumptions += ["a rejection by Fandango is never counted as a violation (the supported subset is not specified); acceptance rate and rejected constructs are reported",
                        "constraint / generator / repetition contexts use a single symbol reference, renamed to one identifier before comparison"]
