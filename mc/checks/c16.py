"""C16 — generator-defined fields carry generator output and are not edited behind it.
Specs whose generator functions log every call; operator closure + loop executions on them;
plus the ill-fitting generator, which must raise."""
from mc import evo
from mc.common import Ctx
from mc.explore import dfs
from mc.fd import build
from mc.seams import max_repetitions, random_seam

LEVEL = "model_checking"

BAD = 'def bad():\n    return "xyz"\n<start> ::= <k> <v>\n<k> ::= "k"\n<v> ::= <d>+ := bad()\n<d> ::= "1" | "2"\n'


# ---- trees obtained from the API parse and handed back as the initial population of a later search (reloading a corpus):
# the spec has generators but NO constraints of its own; the later search gets extra constraints that point into a generated field
SEEDED = evo.GEN_PRELUDE + '<start> ::= <k> "-" <c> "-" <tail>\n<k> ::= "k" | "j"\n<c> ::= <d>+ := const()\n<tail> ::= <d>{1,2}\n<d> ::= "1" | "2" | "3"\n'


def seeded_work(policy):
    from mc.explore import Chooser, Horizon
    from mc.fd import snap
    spec = build(SEEDED)
    out = {"viol": [], "emitted": 0, "population": 0}
    ch = Chooser([], max_points=6000, policy=policy)
    emitted = []
    try:
        with random_seam(ch), max_repetitions(3):
            spec.grammar.fuzz("<start>", 10)                      # the generator runs once: its value is on the log
            seeds = [t for w in ("k-12-3", "j-12-21") for t in spec.parse(w)]
            spec.fuzz(initial_population=seeds, extra_constraints=['str(<c>.<d>) != "1"', 'str(<tail>) != "3"'], desired_solutions=2, max_generations=12,
                      population_size=6, random_seed=0, solution_callback=lambda t, i: emitted.append(t))
    except Horizon:
        pass
    except Exception as e:
        out["error"] = type(e).__name__
    log = evo.get_log(spec)
    e = {"gens": {"<c>": ("const", lambda a: "12")}}
    pop = list(getattr(spec.fandango, "population", [])) if getattr(spec, "fandango", None) is not None else []
    out["emitted"], out["population"] = len(emitted), len(pop)
    for label, trees in (("emitted", emitted), ("population", pop)):
        for t in trees:
            why = evo.judge_generators(e, t, log)
            if why:
                out["viol"].append({"kind": "generated_field_not_generator_output", "where": label, "policy": policy, "why": why, "tree": str(t)[:60],
                                    "after": "Fandango.parse() results used as initial population", "sig": f"parsed_seeds:{label}:{why[:40]}"})
                break
    return out


def run(ctx: Ctx) -> None:
    names = [n for n, e in evo.cat().items() if e.get("gens")]
    b = evo.closure_explore(ctx, names, {"C16"}, depth=2 if ctx.quick else 3, frontier_cap=16 if ctx.quick else 24, run_cap=200 if ctx.quick else 300)
    ctx.log(f"closure: {b}")
    c = evo.loop_explore(ctx, names, {"C16"}, bound=1 if ctx.quick else 2, cap=2500 if ctx.quick else 10000)
    ctx.log(f"loop: { {k: v for k, v in c.items() if k != 'choice_points_default'} }")
    # the generator whose value does not fit its rule must raise, under every resolution
    spec = build(BAD)
    bad_runs = 0

    def body(ch):
        with random_seam(ch), max_repetitions(2):
            try:
                t = spec.grammar.fuzz("<start>", 10)
                return ("tree", str(t))
            except Exception as e:
                return ("raises", type(e).__name__)

    for choices, res, _ in dfs(body, bound=None, max_runs=200):
        if choices is None:
            break
        bad_runs += 1
        if res[0] != "raises":
            ctx.violation({"kind": "ill_fitting_generator_value_accepted", "result": res[1], "choices": choices, "sig": "ill_fitting_generator_value_accepted"})
    from mc.common import pmap_tagged
    seeded = pmap_tagged(seeded_work, ["zero", "rot", "last", "trickle"], chunk=1)
    for r in seeded:
        for v in r["viol"]:
            ctx.violation(v)
    ctx.coverage.update(
        parsed_seed_runs=[{k: v for k, v in r.items() if k != "viol"} for r in seeded],
        states=b["trees"] + c["executions"] + bad_runs, transitions=b["transitions"] + b["executions"] + c["executions"],
        traces_validated_against_impl=b["executions"] + c["executions"] + bad_runs,
        samples=[{"engine": "closure", "spec": "generators", "builder": ["crossover", [1, 0], ["fuzz", [0]], ["fuzz", [1]]]}],
        exhaustive=False, operator_closure=b, loop=c, ill_fitting_generator_runs=bad_runs,
        rule="every tree reachable through mutate/crossover/repair (all resolutions) and every tree in every loop execution within the deviation bound: the text of each generator-owned node "
             "must be a logged return value of its generator, equal to the function of the argument values recorded in .sources, with read-only children",
    )
    if b["capped_expansions"] or b["frontier_capped"]:
        ctx.cap(f"closure: {b['capped_expansions']} expansions capped, {b['frontier_capped']} trees not expanded (frontier cap)")
    ctx.cap(f"loop: deviation bound {1 if ctx.quick else 2}; {c['capped']} prefixes not run; {c['horizon']} horizon hits")
