"""C10 — tree bookkeeping stays consistent under any edits; edits never alias.

Explicit-state BFS.  State = a small forest of live DerivationTrees, rebuilt by replaying
the history on fresh objects.  Transitions = public tree operations (setters, add/set
children, replace, deepcopy, split_end/prefix with and without copying, indexing/slicing,
selector searches, value conversion, hash/size/== to warm caches) and the evolutionary
operators (mutate, crossover, repair) under every resolution of their random decisions.
Invariant in every state on every live tree: size == recount, hash == hash of a freshly
built equal tree, every child's parent is the node listing it, == agrees with structural
equality; operands of non-mutating operations are unchanged.
"""
from __future__ import annotations

import copy
import itertools

from mc.common import Ctx, pmap, tag
from mc.explore import Chooser, bfs_levels, dfs
from mc.fd import DerivationTree, NonTerminal, Terminal, build, leaf_value
from mc.seams import max_repetitions, random_seam

LEVEL = "model_checking"

SPEC = '<start> ::= <x> <y>*\n<x> ::= "a" | "b"\n<y> ::= <x> ","\nwhere str(<start>.<x>) == "a"\n'
WORDS = ["ab,a,", "b"]
MAX_TREES = 4
NODES = 4  # nodes addressed per tree (preorder index)
RESOLUTIONS = 6  # resolutions of a randomised operator offered as separate events

_SPEC = None


def spec():
    global _SPEC
    if _SPEC is None:
        _SPEC = build(SPEC)
    return _SPEC


# ------------------------------------------------------------------ snapshots
def ren_tags(t, ren):
    tags = []
    for (nid, it, rep) in t.origin_repetitions:
        ren.setdefault((nid, it), len(ren))
        tags.append((nid, ren[(nid, it)], rep))
    return tuple(tags)


def snapf(t, ren=None):
    """full structural snapshot (symbol, sender, recipient, read_only, tags, children, sources)"""
    ren = {} if ren is None else ren
    s = t.symbol
    head = ("T", leaf_value(s)) if s.is_terminal else (("N", s.name()) if s.is_non_terminal else ("S",))
    return head + (t._sender, t._recipient, bool(t.read_only), ren_tags(t, ren),
                   tuple(snapf(c, ren) for c in t._children), tuple(snapf(c, ren) for c in t._sources))


def shape(t):
    """what equality is defined on: symbols, senders/recipients, shape"""
    s = t.symbol
    head = ("T", leaf_value(s)) if s.is_terminal else (("N", s.name()) if s.is_non_terminal else ("S",))
    return head + (t._sender, t._recipient, tuple(shape(c) for c in t._children))


def rebuild(sh):
    if sh[0] == "T":
        sym = Terminal(sh[1])
    elif sh[0] == "N":
        sym = NonTerminal(sh[1])
    else:
        from fandango.language.symbols import Slice
        sym = Slice()
    off = 2 if sh[0] != "S" else 1
    return DerivationTree(sym, [rebuild(c) for c in sh[off + 2]], sender=sh[off], recipient=sh[off + 1])


def preorder(t):
    out = [t]
    for c in t._children:
        out.extend(preorder(c))
    return out


def check_tree(t, label):
    """returns a violation reason or None"""
    for n in preorder(t):
        recount = len(preorder(n))
        if n.size() != recount:
            return f"{label}: size() = {n.size()} but the subtree has {recount} nodes at {n.symbol.format_as_spec()}"
        for c in n._children:
            if c._parent is not n:
                return f"{label}: child {c.symbol.format_as_spec()} of {n.symbol.format_as_spec()} has parent " \
                       f"{c._parent.symbol.format_as_spec() if c._parent is not None else None}"
        for c in n._sources:
            if c._parent is not n:
                return f"{label}: source {c.symbol.format_as_spec()} has a foreign parent"
    for n in preorder(t):
        fresh = rebuild(shape(n))
        if hash(n) != hash(fresh):
            return f"{label}: hash differs from the hash of a freshly built equal tree at {n.symbol.format_as_spec()} (stale cache)"
    return None


# ------------------------------------------------------------------ operations
def alphabet():
    ev = []
    trees = range(MAX_TREES)
    for ti in trees:
        ev.append(("deepcopy", ti))
        ev.append(("warm", ti))  # hash/size/==/str on every node: populate caches before later edits
        ev.append(("str", ti))
        ev.append(("search", ti))
        for ni in range(NODES):
            ev.append(("add_leaf", ti, ni))
            ev.append(("drop_children", ti, ni))
            ev.append(("reverse_children", ti, ni))
            ev.append(("set_symbol", ti, ni))
            ev.append(("set_sender", ti, ni))
            ev.append(("getitem0", ti, ni))
            ev.append(("copy_nochildren", ti, ni))
            ev.append(("copy_noparent", ti, ni))
            ev.append(("slice", ti, ni))
            ev.append(("split_end_copy", ti, ni))
            ev.append(("split_end_inplace", ti, ni))
            ev.append(("prefix_copy", ti, ni))
            ev.append(("prefix_inplace", ti, ni))
            for tj in trees:
                for nj in range(NODES):
                    if (ti, ni) != (tj, nj):
                        ev.append(("replace", ti, ni, tj, nj))
        for k in range(RESOLUTIONS):
            ev.append(("mutate", ti, k))
            ev.append(("repair", ti, k))
            for tj in trees:
                if tj > ti:
                    ev.append(("crossover", ti, tj, k))
    return ev


READONLY_OPS = {"copy_nochildren", "copy_noparent", "warm", "str", "search", "getitem0", "slice", "deepcopy", "split_end_copy", "prefix_copy", "replace", "mutate", "repair", "crossover"}


def kth_resolution(body, k):
    """k-th leaf (DFS order) of the decision tree of body(chooser); None if there are fewer"""
    i = 0
    for choices, res, _ in dfs(body, bound=None, max_runs=k + 1):
        if choices is None:
            return None
        if i == k:
            return res
        i += 1
    return None


def apply(forest, ev):
    """apply ev; returns (enabled, note).  New trees are appended to the forest."""
    op = ev[0]
    g = spec().grammar
    if ev[1] >= len(forest):
        return False, None
    t = forest[ev[1]]
    nodes = preorder(t)

    def node(i):
        return nodes[i] if i < len(nodes) else None

    if op == "deepcopy":
        if len(forest) >= MAX_TREES:
            return False, None
        forest.append(copy.deepcopy(t))
        return True, None
    if op == "warm":
        for n in nodes:
            hash(n), n.size(), n == t
        return True, None
    if op == "str":
        for n in nodes:
            str(n)
        return True, None
    if op == "search":
        from fandango.language.search import AttributeSearch, DescendantAttributeSearch, ItemSearch, RuleSearch
        x = RuleSearch(NonTerminal("<x>"))
        for s in (x, AttributeSearch(RuleSearch(NonTerminal("<y>")), x), DescendantAttributeSearch(RuleSearch(NonTerminal("<start>")), x),
                  ItemSearch(RuleSearch(NonTerminal("<y>")), [0]), ItemSearch(RuleSearch(NonTerminal("<start>")), [slice(0, 2)])):
            try:
                for c in s.find(t):
                    c.evaluate()
            except IndexError:
                pass
        return True, None
    n = node(ev[2]) if len(ev) > 2 and op not in ("mutate", "repair", "crossover") else None
    if op in ("add_leaf", "drop_children", "reverse_children", "set_symbol", "set_sender", "getitem0", "slice", "copy_nochildren", "copy_noparent",
              "split_end_copy", "split_end_inplace", "prefix_copy", "prefix_inplace", "replace", "adopt"):
        if n is None:
            return False, None
    if op == "add_leaf":
        if n.symbol.is_terminal:
            return False, None
        n.add_child(DerivationTree(Terminal("z")))
        return True, None
    if op == "drop_children":
        if not n._children:
            return False, None
        n.set_children([])
        return True, None
    if op == "reverse_children":
        if len(n._children) < 2:
            return False, None
        n.set_children(list(reversed(n._children)))
        return True, None
    if op == "set_symbol":
        if n.symbol.is_terminal:
            n.symbol = Terminal("q")
        else:
            n.symbol = NonTerminal("<q>")
        return True, None
    if op == "set_sender":
        if n.symbol.is_terminal or n.sender == "P":
            return False, None
        n.sender = "P"
        n.recipient = "Q"
        return True, None
    if op == "getitem0":
        if not n._children:
            return False, None
        n[0]
        return True, None
    if op in ("copy_nochildren", "copy_noparent"):
        if len(forest) >= MAX_TREES or n.symbol.is_terminal:
            return False, None
        if op == "copy_nochildren":
            forest.append(n.deepcopy(copy_children=False, copy_params=False, copy_parent=False))
        else:
            forest.append(n.deepcopy(copy_children=True, copy_params=False, copy_parent=False))
        return True, None
    if op == "slice":
        if not n._children:
            return False, None
        r = n[0:2]
        str(r)
        return True, None
    if op in ("split_end_copy", "split_end_inplace", "prefix_copy", "prefix_inplace"):
        if n is t:
            return False, None
        cp = op.endswith("copy")
        if cp and len(forest) >= MAX_TREES:
            return False, None
        if op.startswith("split_end"):
            r = n.split_end(copy_tree=cp)
        else:
            r = n.prefix(copy_tree=cp)
        if cp:
            forest.append(r.get_root())
        return True, None
    if op in ("replace", "adopt"):
        if ev[3] >= len(forest):
            return False, None
        other = preorder(forest[ev[3]])
        if ev[4] >= len(other):
            return False, None
        m = other[ev[4]]
        if op == "replace":
            if len(forest) >= MAX_TREES or n.symbol != m.symbol or n.symbol.is_terminal:
                return False, None
            forest.append(t.replace(g, n, m))
            return True, None
        # adopt: add a node that is (still) listed in another tree as a child here
        if n.symbol.is_terminal or ev[1] == ev[3] or m._parent is None:
            return False, None
        n.add_child(m)
        return True, "adopt"
    # ---- evolutionary operators, one event per resolution of their random decisions
    from fandango.evolution.evaluation import Evaluator
    from fandango.evolution.mutation import SimpleMutation
    from fandango.evolution.crossover import SimpleSubtreeCrossover
    from fandango.evolution.population import PopulationManager

    if len(forest) >= MAX_TREES:
        return False, None
    k = ev[-1]
    if op == "mutate":
        def body(ch):
            ev_ = Evaluator(g, spec().constraints, 1.0, 5, 1.0)
            with random_seam(ch), max_repetitions(2):
                gen = SimpleMutation().mutate(t, g, ev_.evaluate_individual, max_nodes=12)
                try:
                    while True:
                        next(gen)
                except StopIteration as st:
                    return st.value
        r = kth_resolution(body, k)
        if r is None:
            return False, None
        forest.append(r)
        return True, None
    if op == "repair":
        def body(ch):
            ev_ = Evaluator(g, spec().constraints, 1.0, 5, 1.0)
            with random_seam(ch), max_repetitions(2):
                gen = ev_.evaluate_individual(t)
                try:
                    while True:
                        next(gen)
                except StopIteration as st:
                    sugg = st.value[2]
                return PopulationManager(g, "<start>").fix_individual(t, sugg)[0]
        r = kth_resolution(body, k)
        if r is None or k > 0:
            return False, None
        forest.append(r)
        return True, None
    if op == "crossover":
        if ev[2] >= len(forest):
            return False, None
        u = forest[ev[2]]
        def body(ch):
            with random_seam(ch):
                return SimpleSubtreeCrossover().crossover(g, t, u)
        r = kth_resolution(body, k)
        if r is None:
            return False, None
        forest.append(r[0])
        if len(forest) < MAX_TREES:
            forest.append(r[1])
        return True, None
    raise AssertionError(ev)


def initial_forest():
    g = spec().grammar
    return [g.parse(w) for w in WORDS]


def canon(forest):
    ren: dict = {}
    return tuple((snapf(t, ren), tuple(n.hash_cache is not None for n in preorder(t))) for t in forest)


def step(task):
    hist, ev = task
    forest = initial_forest()
    adopted = False
    for e in hist:
        ok, note = apply(forest, e)
        adopted = adopted or note == "adopt"
    before = [snapf(t) for t in forest]
    before_links = [check_links(t) for t in forest]
    try:
        enabled, note = apply(forest, ev)
    except Exception as e:
        return (("raised", repr(e)[:80]), {"kind": "operation_raises", "history": [list(h) for h in hist], "op": list(ev),
                                           "error": f"{type(e).__name__}: {e}"[:200], "sig": f"raises:{ev[0]}:{type(e).__name__}"}, True)
    if not enabled:
        return (None, None, False)
    viol = None
    base = {"history": [list(h) for h in hist], "op": list(ev)}
    # operands of non-mutating operations must be unchanged (the trees that existed before)
    if ev[0] in READONLY_OPS:
        for i, (b, bl) in enumerate(zip(before, before_links)):
            if snapf(forest[i]) != b:
                viol = dict(base, kind="non_mutating_operation_changed_operand", tree=i, sig=f"operand_changed:{ev[0]}")
                break
            if bl is None and check_links(forest[i]) is not None:
                viol = dict(base, kind="non_mutating_operation_broke_parent_links", tree=i, why=check_links(forest[i]),
                            sig=f"parent_links_broken_by:{ev[0]}")
                break
    if viol is None and not adopted and note != "adopt":
        for i, t in enumerate(forest):
            why = check_tree(t, f"tree{i}")
            if why:
                viol = dict(base, kind="bookkeeping_inconsistent", why=why, sig=f"bookkeeping:{ev[0]}:{why.split(':')[1].strip()[:30]}")
                break
    if viol is None:
        for a, b in itertools.combinations(range(len(forest)), 2):
            if (forest[a] == forest[b]) != (shape(forest[a]) == shape(forest[b])):
                viol = dict(base, kind="equality_disagrees_with_structure", trees=[a, b], sig="equality_disagrees_with_structure")
                break
    if viol:
        tag(viol, "mc.checks.c10", "step", task)
    return (canon(forest), viol, True)


def check_links(t):
    for n in preorder(t):
        for c in n._children:
            if c._parent is not n:
                return f"child {c.symbol.format_as_spec()} of {n.symbol.format_as_spec()} points to another parent"
    return None


def run(ctx: Ctx) -> None:
    depth = 2 if ctx.quick else 3
    alpha = alphabet()
    r = bfs_levels(step, alpha, depth, lambda fn, tasks: pmap(fn, tasks, chunk=64))
    ctx.log(f"states={r['states']} transitions={r['transitions']} depth={r['depth']} violations={len(r['violations'])}")
    for v in r["violations"]:
        ctx.violation(v)
    # the search operators and the real loop on the collision specs (computed repetitions, generators, equality repair, ...):
    # inputs unchanged, bookkeeping of inputs / results / emitted solutions / population consistent, no node shared
    from mc import evo
    names = list(evo.cat())
    b = evo.closure_explore(ctx, names, {"C10"}, depth=2, frontier_cap=8 if ctx.quick else 16, run_cap=60 if ctx.quick else 200)
    ctx.log(f"closure: {b}")
    c = evo.loop_explore(ctx, names, {"C10"}, bound=1 if ctx.quick else 2, cap=800 if ctx.quick else 8000)
    ctx.log(f"loop: { {k: v for k, v in c.items() if k != 'choice_points_default'} }")
    ctx.coverage.update(
        states=r["states"] + b["trees"] + c["executions"], transitions=r["transitions"] + b["executions"] + c["executions"],
        traces_validated_against_impl=r["transitions"] + b["executions"] + c["executions"],
        samples=r["samples"], exhaustive=not r["capped"], depth=depth, alphabet=len(alpha), operator_closure=b, loop=c,
        rule="state = forest of live trees reached by a history of operations (canonical form: full structural snapshot of every tree incl. "
             "which hash caches are warm); every transition re-checks the bookkeeping invariant on every live tree and that operands of non-mutating operations are unchanged; "
             "in addition every application of mutate / crossover / repair (all resolutions) on the trees of the collision specs, and every execution of the real loop within the deviation bound, "
             "is checked for unchanged inputs, consistent bookkeeping of inputs, results, emitted solutions and population, and for node objects shared between result and inputs",
    )
    if b["capped_expansions"] or b["frontier_capped"] or c["capped"]:
        ctx.cap(f"operator closure: {b['capped_expansions']} expansions capped, {b['frontier_capped']} reachable trees not expanded; loop: deviation bound {1 if ctx.quick else 2}, {c['capped']} second-level prefixes not run")
    ctx.assumptions += ["after `adopt` (add_child of a node that is still listed in another tree) the donor's links are not judged: sharing a node between two parents is a misuse, not a property violation"]
