"""C12 — parse results do not depend on earlier parse calls.

Explicit-state BFS over request histories on ONE spec object.  State = history, rebuilt
by replay on a fresh spec; canonical form = contents of the parser's forest cache (keys and
number/shape of cached trees).  Oracle: the observation of every request equals the
observation of the same request on a freshly built spec (differential against the
initial state); trees handed out earlier are mutated by one of the operations.
"""
from __future__ import annotations

import random

from mc.common import Ctx, pmap, tag
from mc.explore import bfs_levels
from mc.fd import ParsingMode, build, snap

LEVEL = "model_checking"

SPECS = {
    "ambiguous": ('<start> ::= <x>+\n<x> ::= "a" | "aa" | "b"\n', ["aa", "ab", "ac", "aaa"], "<x>"),
    "generator": ('def make():\n    return "cc"\n<start> ::= <a> <b>\n<a> ::= "p" | "q"\n<b> ::= <c>+ := make()\n<c> ::= "c" | "cc"\n',
                  ["pcc", "cc", "pc"], "<b>"),
    "computed_rep": ('<start> ::= <n> <item>{int(<n>)}\n<n> ::= "1" | "2"\n<item> ::= "x" | "xx"\n', ["2xx", "1xx", "2xxx", "1x"], "<item>"),
    # bit-level rules; requests may hand in a TREE instead of a word (what the search does with generator results):
    # trees of 4 and of 8 bit leaves can serialise to the same byte
    "bits": ('<start> ::= <b>{4} | <b>{8}\n<b> ::= 0 | 1\n', [b"\x05", b"\x50", b"\x05\x05"], "<b>"),
    # bytes regexes; the same word is requested as bytes and as str
    "bytes_regex": ('<start> ::= <k> <v>\n<k> ::= rb"[a-c]+"\n<v> ::= b"=" rb"[0-9]"\n', [b"ab=1", "ab=1", b"a=", "c=2"], "<k>"),
    # a generator with a parameter: the API parse attaches the derived argument trees (.sources) to its result trees
    "generator_param": ('def f(s):\n    return str(s) + str(s)\n<start> ::= <x> <tail>\n<x> ::= <d>+ := f(<src>)\n<src> ::= <d>+ := "12"\n<tail> ::= <d>*\n<d> ::= "1" | "2"\n',
                        ["1212", "12121", "12"], "<x>"),
    "unambiguous": ('<start> ::= <k> ("," <k>)*\n<k> ::= r"[ab]+"\nwhere len(str(<start>)) < 4\n', ["a,b", "ab", "a,b,a", "a,"], "<k>"),
}


def canon_tags(t, ren):
    """snapshot with origin_repetitions iteration ids renamed in order of first appearance"""
    tags = []
    for (nid, it, rep) in t.origin_repetitions:
        key = (nid, it)
        if key not in ren:
            ren[key] = len(ren)
        tags.append((nid, ren[key], rep))
    s = t.symbol
    from mc.fd import leaf_value
    head = ("T", leaf_value(s)) if s.is_terminal else ("N", s.name())
    return head + (t.sender, t.recipient, bool(t.read_only), tuple(tags), tuple(canon_tags(c, ren) for c in t._children),
                   tuple(canon_tags(c, ren) for c in t._sources))


def observe(trees):
    ren: dict = {}
    return tuple(canon_tags(t, ren) for t in trees)


def ops_for(name):
    fan, ws, inner = SPECS[name]
    ops = []
    for w in ws:
        ops += [("parse", w), ("forest", w), ("abandon1", w), ("ctrlflow", w), ("prefix", w), ("api", w),
                ("prefix_first", w), ("prefix_abandon1", w), ("api_prefix_first", w)]
    ops += [("inner_forest", ws[1] if name != "generator" else "cc"), ("inner_parse", ws[1] if name != "generator" else "cc")]
    ops += [("mutate_last", None), ("mutate_leaf", None)]
    # a search through the API with extra constraints that the words requested afterwards violate
    ops += [("api_fuzz_extra", None)]
    if name == "generator":
        ops += [("fuzz", None)]
    if name == "bits":
        for bits in ("0101", "00000101", "0000", "00000000", "01010000"):
            ops += [("forest_tree", bits), ("parse_tree", bits)]
    return ops


def bits_tree(bits: str):
    from fandango.language.symbols import NonTerminal, Terminal
    from fandango.language.tree import DerivationTree
    kids = [DerivationTree(NonTerminal("<b>"), [DerivationTree(Terminal(int(c)))]) for c in bits]
    return DerivationTree(NonTerminal("<start>"), kids)


def apply(spec, name, op, held):
    """execute one request; returns the observation"""
    kind, w = op
    g = spec.grammar
    inner = SPECS[name][2]
    try:
        if kind == "parse":
            t = g.parse(w)
            trees = [t] if t is not None else []
        elif kind == "forest":
            trees = list(g.parse_forest(w))
        elif kind == "abandon1":
            gen = g.parse_forest(w)
            t = next(gen, None)
            gen.close()
            trees = [t] if t is not None else []
        elif kind == "ctrlflow":
            trees = list(g.parse_forest(w, include_controlflow=True))
        elif kind == "prefix":
            trees = list(g.parse_forest(w, mode=ParsingMode.INCOMPLETE))
        elif kind == "api":
            trees = list(spec.parse(w))
        elif kind == "prefix_first":
            t = g.parse(w, mode=ParsingMode.INCOMPLETE)
            trees = [t] if t is not None else []
        elif kind == "prefix_abandon1":
            gen = g.parse_forest(w, mode=ParsingMode.INCOMPLETE)
            t = next(gen, None)
            gen.close()
            trees = [t] if t is not None else []
        elif kind == "api_prefix_first":
            gen = spec.parse(w, prefix=True)
            t = next(gen, None)
            gen.close()
            trees = [t] if t is not None else []
        elif kind == "inner_forest":
            trees = list(g.parse_forest(w, start=inner))
        elif kind == "inner_parse":
            t = g.parse(w, start=inner)
            trees = [t] if t is not None else []
        elif kind == "forest_tree":
            trees = list(g.parse_forest(bits_tree(w)))
        elif kind == "parse_tree":
            t = g.parse(bits_tree(w))
            trees = [t] if t is not None else []
        elif kind == "mutate_last":
            if not held:
                return None
            t = held[-1]
            # change the tree that was handed out: drop children of the first inner node, rename a symbol
            from fandango.language.symbols import NonTerminal
            if t.children:
                t.children[0].set_children([])
                t.set_children(t.children[:1])
            t.symbol = NonTerminal("<mutated>")
            return ("mutated",)
        elif kind == "api_fuzz_extra":
            try:
                spec.fuzz(desired_solutions=1, max_generations=1, population_size=2, random_seed=3, extra_constraints=['len(str(<start>)) > 40'])
            except Exception:
                pass
            return ("searched",)
        elif kind == "mutate_leaf":
            if not held:
                return None
            # change a LEAF of the tree that was handed out last
            from fandango.language.symbols import Terminal
            node = held[-1]
            while node._children:
                node = node._children[0]
            node.symbol = Terminal("X")
            return ("mutated_leaf",)
        elif kind == "fuzz":
            random.seed(7)
            t = g.fuzz()
            return ("fuzz", snap(t))
        else:
            raise AssertionError(kind)
    except Exception as e:  # an exception is an observation too
        return ("raises", type(e).__name__)
    held.extend(trees)
    return observe(trees)


_FRESH: dict = {}


def fresh_obs(name, op):
    key = (name, op)
    if key not in _FRESH:
        spec = build(SPECS[name][0])
        _FRESH[key] = apply(spec, name, op, [])
    return _FRESH[key]


def _node_ids(t, acc):
    acc.add(id(t))
    for c in t._children:
        _node_ids(c, acc)
    for c in t._sources:
        _node_ids(c, acc)


def cache_canon(spec, held=()):
    """canonical state: forest-cache content + which cache entries are aliased by trees the
    caller still holds (two histories with equal caches but different aliasing have
    different futures, so they must not be merged)."""
    items = []
    held_ids: set = set()
    for t in held:
        _node_ids(t, held_ids)
    for key, forest in spec.grammar._parser._cache.items():
        ids: set = set()
        for t in forest:
            _node_ids(t, ids)
        kparts = tuple(repr(k.name() if hasattr(k, "name") and callable(k.name) else k) for k in (key if isinstance(key, tuple) else (key,)))
        items.append((kparts, len(forest), tuple(sorted(repr(snap(t)) for t in forest)), bool(ids & held_ids)))
    # residual state of the shared incremental parser that survives a request (an abandoned
    # iteration leaves it behind): part of the state, otherwise histories with different futures merge
    ip = spec.grammar._parser._iter_parser
    residual = (tuple(sorted(repr(snap(t)) for t in getattr(ip, "_incomplete", ()))), len(getattr(ip, "_tmp_rules", {})))
    # what else a request reads from the spec object besides the caches
    own = (len(spec.constraints), len(getattr(spec, "soft_constraints", []) or []), str(getattr(spec, "_start_symbol", "")))
    return (tuple(sorted(items)), residual, own)


def step(task):
    (name, hist), ev = task[0], task[1]
    spec = build(SPECS[name][0])
    held: list = []
    for op in hist:
        apply(spec, name, op, held)
    if ev[0] in ("mutate_last", "mutate_leaf") and not held:
        return (None, None, False)
    obs = apply(spec, name, ev, held)
    viol = None
    if ev[0] not in ("mutate_last", "mutate_leaf", "api_fuzz_extra"):
        want = fresh_obs(name, ev)
        if obs != want:
            viol = {"kind": "history_dependent_result", "spec": name, "history": [list(o) for o in hist], "request": list(ev),
                    "got": repr(obs)[:300], "fresh": repr(want)[:300],
                    "got_n": len(obs) if isinstance(obs, tuple) else None, "fresh_n": len(want) if isinstance(want, tuple) else None,
                    "sig": f"{hist[-1][0] if hist else '-'}->{ev[0]}"}
    if viol:
        tag(viol, "mc.checks.c12", "step", task)
    return (cache_canon(spec, held), viol, True)


def _step_wrapped(task):
    # task = ((name, hist_ops), ev) flattened by run()
    return step(task)


def run(ctx: Ctx) -> None:
    depth = 3 if ctx.quick else 4
    total = {"states": 0, "transitions": 0}
    samples = []
    for name in SPECS:
        alphabet = ops_for(name)

        def pm(fn, tasks, name=name):
            return pmap(_step_wrapped, [((name, h), ev) for (h, ev) in tasks], chunk=8)

        r = bfs_levels(step, alphabet, depth, pm)
        ctx.log(f"{name}: states={r['states']} transitions={r['transitions']} depth={r['depth']} violations={len(r['violations'])}")
        total["states"] += r["states"]
        total["transitions"] += r["transitions"]
        for v in r["violations"]:
            ctx.violation(v)
        samples += [{"spec": name, "history": s} for s in r["samples"][:2]]
    ctx.coverage.update(
        states=total["states"], transitions=total["transitions"], traces_validated_against_impl=total["transitions"],
        samples=samples, exhaustive=True, depth=depth, specs=list(SPECS),
        rule="state = request history on one spec object, de-duplicated on the canonical content of the forest cache; every transition's "
             "observation (ordered trees incl. sender/recipient and repetition tags modulo iteration renaming) is compared with the same request on a fresh spec",
    )
    ctx.assumptions += ["histories that lead to the same forest-cache content are merged (Repetition.iteration counters are not part of the canonical state; "
                        "observations are compared modulo renaming of iteration ids)"]
