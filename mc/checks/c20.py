"""C20 — a protocol run is a valid, correctly attributed interaction.

Stateless exploration of the real _generate_io loop, in-process, under virtual time.
Participants: the fuzzer-side party F (its send() logs what Fandango transmits) and scripted
external parties.  For every scenario (spec x peer behaviour: valid reply, wrong type,
constraint-violating value, truncated message, unsolicited early message, two peers) the
explorer decides at every lock-protected buffer access of the main loop and at every virtual
sleep how many pending remote units (characters/bytes: add_receive's own granularity, so
every transport fragmentation is covered) arrive first, and whether the pending timeout
expires; deviation bound 2 (quick) / 3 (thorough) from "everything arrives immediately".
"""
from __future__ import annotations

import random

from mc.c20_rt import RT, ClockShim, Livelock
from mc.common import Ctx, InternalError, pmap, pmap_tagged
from mc.explore import Chooser, Horizon
from mc.fd import build
from mc.refgrammar import Alt, Lit, NT, Opt, RefGrammar, Rep, Rx, Seq, Star, WordMatcher, viable

LEVEL = "model_checking"

PRELUDE = '''import mc.c20_rt as RTM
class F(FandangoParty):
    def __init__(self):
        super().__init__(connection_mode=ConnectionMode.OPEN)
    def send(self, message, recipient):
        RTM.on_send("F", message, recipient)
    def start(self):
        pass
    def stop(self):
        pass
class E(FandangoParty):
    def __init__(self):
        super().__init__(connection_mode=ConnectionMode.EXTERNAL)
    def start(self):
        pass
    def stop(self):
        pass
class G(FandangoParty):
    def __init__(self):
        super().__init__(connection_mode=ConnectionMode.EXTERNAL)
    def start(self):
        pass
    def stop(self):
        pass
'''

# Each scenario: spec body, message-level reference (letters), constraint oracle on messages,
# and peer scripts: name -> (script, early deliveries, expectation)
#   expectation: "complete" (the run must end with the full interaction), or "error" (the run must
#   end with an error / must never contain the offending message)
SCENARIOS = {
    "pingpong": dict(
        body='<start> ::= <F:E:ping> <E:F:pong> <F:E:puff> <E:F:paff>\n<ping> ::= "pi" | "pa"\n<pong> ::= "po" <d>\n<d> ::= r"[0-9]"\n<puff> ::= "pu"\n<paff> ::= "pf" | "pg" <e>\n<e> ::= r"[0-9]"\n'
             'where int(<pong>.<d>) > 3\nwhere forall <x> in <paff>..<e>: int(<x>) < 5\n',
        msgs={"ping": ("F", "E", r"pi|pa"), "pong": ("E", "F", r"po[4-9]"), "puff": ("F", "E", r"pu"), "paff": ("E", "F", r"pf|pg[0-4]")},
        lang=Seq((Lit("ping;"), Lit("pong;"), Lit("puff;"), Lit("paff;"))),
        scripts={
            "valid": ({"pi": [("E", "F", "po7")], "pa": [("E", "F", "po5")], "pu": [("E", "F", "pg3")]}, [], "complete"),
            "valid_other_type": ({"pi": [("E", "F", "po7")], "pa": [("E", "F", "po5")], "pu": [("E", "F", "pf")]}, [], "complete"),
            "wrong_type": ({"pi": [("E", "F", "pf")], "pa": [("E", "F", "pf")], "pu": [("E", "F", "pg1")]}, [], "error"),
            "violates_constraint": ({"pi": [("E", "F", "po2")], "pa": [("E", "F", "po2")], "pu": [("E", "F", "pg1")]}, [], "error"),
            "second_reply_violates_constraint": ({"pi": [("E", "F", "po7")], "pa": [("E", "F", "po5")], "pu": [("E", "F", "pg8")]}, [], "error"),
            "truncated": ({"pi": [("E", "F", "po")], "pa": [("E", "F", "po")], "pu": [("E", "F", "pg1")]}, [], "error"),
            "garbage_tail": ({"pi": [("E", "F", "po7")], "pa": [("E", "F", "po7")], "pu": [("E", "F", "pg1X")]}, [], "any"),
            "early": ({"pi": [], "pa": [], "pu": [("E", "F", "pf")]}, [["E", "F", "po9"]], "any"),
        },
    ),
    "lookahead": dict(
        # <r1> is not prefix-free: the parser has to read one unit past its end before it knows the message is over
        body='<start> ::= <F:E:go> <E:F:r1> <E:F:r2> <F:E:fin>\n<go> ::= "go"\n<r1> ::= "ok" "!"*\n<r2> ::= "pf" | "qf"\n<fin> ::= "."\n',
        msgs={"go": ("F", "E", r"go"), "r1": ("E", "F", r"ok!*"), "r2": ("E", "F", r"pf|qf"), "fin": ("F", "E", r"\.")},
        lang=Seq((Lit("go;"), Lit("r1;"), Lit("r2;"), Lit("fin;"))),
        scripts={
            "one_burst": ({"go": [("E", "F", "ok!!pf")]}, [], "complete"),
            "no_bangs": ({"go": [("E", "F", "okqf")]}, [], "complete"),
            "two_bursts": ({"go": [("E", "F", "ok!"), ("E", "F", "pf")]}, [], "complete"),
            "second_missing": ({"go": [("E", "F", "ok!!")]}, [], "error"),
        },
    ),
    "optional_repeat": dict(
        body='<start> ::= <F:E:hi> (<E:F:q> <F:E:a>){0,2} <E:F:bye>\n<hi> ::= "h"\n<q> ::= "q" r"[ab]"\n<a> ::= "a" | "A"\n<bye> ::= "bye"\n',
        msgs={"hi": ("F", "E", r"h"), "q": ("E", "F", r"q[ab]"), "a": ("F", "E", r"a|A"), "bye": ("E", "F", r"bye")},
        lang=Seq((Lit("hi;"), Rep(Seq((Lit("q;"), Lit("a;"))), 0, 2), Lit("bye;"))),
        scripts={
            "no_question": ({"h": [("E", "F", "bye")]}, [], "complete"),
            "one_question": ({"h": [("E", "F", "qa")], "a": [("E", "F", "bye")], "A": [("E", "F", "bye")]}, [], "complete"),
            "two_in_one_burst": ({"h": [("E", "F", "qa")], "a": [("E", "F", "qb")], "A": [("E", "F", "qb")]}, [], "any"),
            "question_then_garbage": ({"h": [("E", "F", "qa")], "a": [("E", "F", "zzz")], "A": [("E", "F", "zzz")]}, [], "error"),
            "bye_glued_to_question": ({"h": [("E", "F", "qabye")]}, [], "any"),
        },
    ),
    "alternatives": dict(
        body='<start> ::= <F:E:req> (<E:F:ok> | <E:F:err>) <F:E:fin>\n<req> ::= "r" <n>\n<n> ::= r"[1-3]"\n<ok> ::= "ok" <m>\n<m> ::= r"[1-3]"\n<err> ::= "er"\n<fin> ::= "f"\n'
             'where forall <o> in <ok>: str(<o>.<m>) == str(<req>.<n>)\n',
        msgs={"req": ("F", "E", r"r[1-3]"), "ok": ("E", "F", r"ok[1-3]"), "err": ("E", "F", r"er"), "fin": ("F", "E", r"f")},
        lang=Seq((Lit("req;"), Alt((Lit("ok;"), Lit("err;"))), Lit("fin;"))),
        echo=True,
        scripts={
            "ok_echo": ({"r1": [("E", "F", "ok1")], "r2": [("E", "F", "ok2")], "r3": [("E", "F", "ok3")]}, [], "complete"),
            "err": ({"r1": [("E", "F", "er")], "r2": [("E", "F", "er")], "r3": [("E", "F", "er")]}, [], "complete"),
            "ok_wrong_echo": ({"r1": [("E", "F", "ok2")], "r2": [("E", "F", "ok3")], "r3": [("E", "F", "ok1")]}, [], "error"),
            "prefix_of_both": ({"r1": [("E", "F", "e")], "r2": [("E", "F", "o")], "r3": [("E", "F", "o")]}, [], "error"),
        },
    ),
    "bytes": dict(
        body='<start> ::= <F:E:syn> <E:F:ack>\n<syn> ::= b"\\x01" <len>\n<len> ::= b"\\x02" | b"\\x03"\n<ack> ::= b"\\x01\\x00" <pay>\n<pay> ::= rb"[\\x10-\\x12]{2}"\n',
        msgs={"syn": ("F", "E", rb"\x01[\x02\x03]"), "ack": ("E", "F", rb"\x01\x00[\x10-\x12]{2}")},
        lang=Seq((Lit("syn;"), Lit("ack;"))),
        scripts={
            "valid": ({b"\x01\x02": [("E", "F", b"\x01\x00\x10\x12")], b"\x01\x03": [("E", "F", b"\x01\x00\x11\x11")]}, [], "complete"),
            "short": ({b"\x01\x02": [("E", "F", b"\x01\x00\x10")], b"\x01\x03": [("E", "F", b"\x01\x00\x10")]}, [], "error"),
            "bad_byte": ({b"\x01\x02": [("E", "F", b"\x01\x00\x10\x20")], b"\x01\x03": [("E", "F", b"\x01\x00\x10\x20")]}, [], "error"),
        },
    ),
    "repeated_exchange": dict(
        # the same fuzzer message type is sent three times; one of its alternatives is forbidden by a constraint, so the search for
        # each message runs out of generations and falls back on held-back candidates
        body='<start> ::= <ex>{3}\n<ex> ::= <F:E:ping> <E:F:pong>\n<ping> ::= "p" <kind>\n<kind> ::= "a" | "b"\n<pong> ::= "o" r"[0-9]"\n'
             'where forall <p> in <ping>: str(<p>.<kind>) == "a"\n',
        msgs={"ping": ("F", "E", r"pa"), "pong": ("E", "F", r"o[0-9]")},
        lang=Rep(Seq((Lit("ping;"), Lit("pong;"))), 3, 3),
        scripts={
            "valid": ({"pa": [("E", "F", "o1")], "pb": [("E", "F", "o2")]}, [], "any"),
        },
    ),
    "challenge": dict(
        # the fuzzer's last message depends on the RECEIVED message through a constraint that addresses the received message node itself
        body='<start> ::= <ex>\n<ex> ::= <F:E:hello> <E:F:chal> <F:E:resp>\n<hello> ::= "h"\n<chal> ::= "c" <num>\n<resp> ::= "r" <num>\n<num> ::= r"[0-9]{2}"\n'
             'where forall <e> in <ex>: int(<e>.<resp>.<num>) + int(str(<e>.<chal>)[1:3]) == 99\n',
        msgs={"hello": ("F", "E", r"h"), "chal": ("E", "F", r"c[0-9]{2}"), "resp": ("F", "E", r"r[0-9]{2}")},
        lang=Seq((Lit("hello;"), Lit("chal;"), Lit("resp;"))),
        relation=("<resp>", "<chal>"),
        settings=dict(population_size=10, max_generations=40),   # the search for <resp> has to go on long enough for mutation to pick a target
        scripts={
            "valid": ({"h": [("E", "F", "c42")]}, [], "any"),
        },
    ),
    "announced_length": dict(
        # computed repetitions across messages, both ways: the length of the remote reply is announced in the fuzzer's request
        # (the packet parser resolves it against the history: hookin parent, context rules), the length of the fuzzer's answer in
        # the remote reply (the search resolves it against the received message)
        body='<start> ::= <F:E:req> <E:F:resp> <F:E:ans>\n<req> ::= "n" <n>\n<n> ::= "1" | "2"\n<resp> ::= "d" <item>{int(<n>)} <k>\n<k> ::= "1" | "2" | "3"\n'
             '<item> ::= r"[xy]"\n<ans> ::= "a" <z>{int(<k>)}\n<z> ::= "z"\n',
        msgs={"req": ("F", "E", r"n[12]"), "resp": ("E", "F", r"d[xy]{1,2}[123]"), "ans": ("F", "E", r"az{1,3}")},
        lang=Seq((Lit("req;"), Lit("resp;"), Lit("ans;"))),
        seeds=[0, 3],   # seed 0 announces 2, seed 3 announces 1
        check=lambda vals: (("<resp>" in vals and len(vals["<resp>"]) - 2 != int(vals["<req>"][1:]) and "reply length differs from the announced one")
                            or ("<ans>" in vals and len(vals["<ans>"]) - 1 != int(vals["<resp>"][-1]) and "answer length differs from the announced one") or None),
        scripts={
            "valid": ({"n1": [("E", "F", "dx3")], "n2": [("E", "F", "dxy1")]}, [], "complete"),
            "valid_same_tail": ({"n1": [("E", "F", "dy2")], "n2": [("E", "F", "dyy2")]}, [], "complete"),
            "too_few": ({"n1": [("E", "F", "d1")], "n2": [("E", "F", "dx1")]}, [], "error"),
            "too_many": ({"n1": [("E", "F", "dxy1")], "n2": [("E", "F", "dxyx1")]}, [], "error"),
        },
    ),
    "same_type_two_senders": dict(
        # the same message type may come from either of two parties at the same point: only the actual deliverer tells them apart
        body='<start> ::= <F:E:go> (<E:F:pong> | <G:F:pong>) <F:E:fin>\n<go> ::= "go"\n<pong> ::= "po" r"[12]"\n<fin> ::= "."\n',
        msgs={"go": ("F", "E", r"go"), "pong": (("E", "G"), "F", r"po[12]"), "fin": ("F", "E", r"\.")},
        lang=Seq((Lit("go;"), Lit("pong;"), Lit("fin;"))),
        scripts={
            "from_e": ({"go": [("E", "F", "po1")]}, [], "complete"),
            "from_g": ({"go": [("G", "F", "po2")]}, [], "complete"),
        },
    ),
    "two_peers": dict(
        body='<start> ::= <F:E:go> (<E:F:e1> <G:F:g1> | <G:F:g1> <E:F:e1>) <F:G:end>\n<go> ::= "go"\n<e1> ::= "e" r"[12]"\n<g1> ::= "g" r"[12]"\n<end> ::= "."\n',
        msgs={"go": ("F", "E", r"go"), "e1": ("E", "F", r"e[12]"), "g1": ("G", "F", r"g[12]"), "end": ("F", "G", r"\.")},
        lang=Seq((Lit("go;"), Alt((Seq((Lit("e1;"), Lit("g1;"))), Seq((Lit("g1;"), Lit("e1;"))))), Lit("end;"))),
        scripts={
            "e_then_g": ({"go": [("E", "F", "e1"), ("G", "F", "g2")]}, [], "complete"),
            "g_then_e": ({"go": [("G", "F", "g1"), ("E", "F", "e2")]}, [], "complete"),
            "only_e": ({"go": [("E", "F", "e1")]}, [], "error"),
        },
    ),
}

SETTINGS = dict(population_size=2, desired_solutions=1, max_generations=9)


def io_run(task):
    import fandango.evolution.algorithm as alg
    import fandango.io.packetparser as pp
    from fandango.io import FandangoIO
    from fandango.language.grammar import FuzzingMode

    scen, script_name, prefix, seed, policy = task
    sc = SCENARIOS[scen]
    script, early, expect = sc["scripts"][script_name]
    ch = Chooser(prefix, max_points=4000, policy=policy)
    RT.reset(ch, script, [list(e) for e in early])
    out = {"scen": scen, "script": script_name, "seed": seed, "policy": policy, "viol": [], "error": None, "horizon": False}
    saved = (alg.time, pp.time, FandangoIO.received_msg, FandangoIO.get_received_msgs, FandangoIO.clear_by_party)
    trees = []
    try:
        spec = build(PRELUDE + sc["body"])
        RT.io = spec.grammar.get_spec_env()[0]["FandangoIO"].instance()

        def wrap(name, orig):
            def f(self, *a, **k):
                if self is RT.io:
                    RT.access_point(name)
                return orig(self, *a, **k)
            return f

        FandangoIO.received_msg = wrap("received_msg", saved[2])
        FandangoIO.get_received_msgs = wrap("get_received_msgs", saved[3])
        FandangoIO.clear_by_party = wrap("clear_by_party", saved[4])
        alg.time = ClockShim
        pp.time = ClockShim
        random.seed(seed)
        try:
            trees = spec.fuzz(mode=FuzzingMode.IO, **dict(SETTINGS, **sc.get("settings", {})))
        except (Horizon,):
            out["horizon"] = True
        except Livelock as e:
            out["viol"].append(dict(_base(task, ch), kind="livelock", why=str(e), sig="livelock"))
        except InternalError:
            raise
        except Exception as e:
            out["error"] = type(e).__name__ + ": " + str(e)[:120]
    finally:
        RT.active = False
        alg.time, pp.time = saved[0], saved[1]
        FandangoIO.received_msg, FandangoIO.get_received_msgs, FandangoIO.clear_by_party = saved[2], saved[3], saved[4]
    out["points"] = [n for n, _ in ch.points]
    out["choices"] = list(ch.choices)
    out["defaults"] = list(ch.defaults)
    out["n_trees"] = len(trees)
    out["sent"] = [(s, r, repr(t)) for s, r, t in RT.sent]
    out["delivered"] = {k: repr(v) for k, v in RT.delivered.items()}
    judge(task, ch, sc, expect, trees, out)
    msgs_obs = tuple(tuple((m.sender, m.recipient, str(m.msg.symbol.name()), repr(_val(m.msg))) for m in t.protocol_msgs()) for t in trees)
    out["outcome"] = (msgs_obs, out["error"] and out["error"].split(":")[0])
    return out


def _val(t):
    return bytes(t) if t.should_be_serialized_to_bytes() else str(t)


def _base(task, ch):
    scen, script_name, prefix, seed, policy = task
    devs = [(i, c) for i, (c, d) in enumerate(zip(ch.choices, ch.defaults)) if c != d]
    return {"scenario": scen, "peer": script_name, "seed": seed, "policy": policy, "prefix": list(prefix), "deviations": devs[:8]}


def judge(task, ch, sc, expect, trees, out):
    import re
    base = _base(task, ch)
    msgs = sc["msgs"]
    langg = RefGrammar({"<start>": sc["lang"]})
    sent = list(RT.sent)
    delivered = dict(RT.delivered)
    for ti, t in enumerate(trees):
        pm = t.protocol_msgs()
        letters = ""
        fuzz_msgs = []
        remote = {}
        for m in pm:
            name = m.msg.symbol.name()[1:-1]
            val = _val(m.msg)
            if name not in msgs:
                out["viol"].append(dict(base, kind="unknown_message_type_in_tree", message=name, sig="unknown_message_type_in_tree"))
                return
            snd, rcp, pat = msgs[name]
            if isinstance(snd, tuple):  # a type that several parties may send at this point: the claimed sender is judged against what that party delivered
                snd = m.sender if m.sender in snd else snd[0]
            if (m.sender, m.recipient) != (snd, rcp):
                out["viol"].append(dict(base, kind="message_attributed_to_wrong_party", message=name, got=[m.sender, m.recipient], want=[snd, rcp],
                                        sig=f"wrong_attribution:{name}"))
            if not re.fullmatch(pat, val):
                out["viol"].append(dict(base, kind="message_violates_type_or_constraint", message=name, value=repr(val),
                                        sig=f"message_violates_type_or_constraint:{name}"))
            letters += name + ";"
            if not viable(langg, letters):
                out["viol"].append(dict(base, kind="history_not_prefix_of_an_interaction", history=letters, sig="history_not_prefix_of_an_interaction"))
                return
            if snd == "F":
                fuzz_msgs.append((snd, rcp, val))
            else:
                remote.setdefault(snd, []).append(val)
        if sc.get("relation"):
            vals = {m.msg.symbol.name(): _val(m.msg) for m in pm}
            a, b = sc["relation"]
            if a in vals and b in vals and vals[a][1:].isdigit() and vals[b][1:].isdigit() and int(vals[a][1:]) + int(vals[b][1:]) != 99:
                out["viol"].append(dict(base, kind="message_violates_type_or_constraint", message=a, value=vals[a], other=vals[b],
                                        sig="message_violates_type_or_constraint:relation"))
            for (snd, rcp, txt) in sent:
                # what went over the wire must satisfy the relation with what the peer delivered, whatever the tree says
                if txt.startswith("r") and delivered.get("E", "")[:3] == "c42" and txt[1:].isdigit() and int(txt[1:]) + 42 != 99:
                    out["viol"].append(dict(base, kind="transmitted_message_violates_constraint", sent=txt, delivered=delivered.get("E"),
                                            sig="transmitted_message_violates_constraint"))
                    break
        if sc.get("check"):
            why = sc["check"]({m.msg.symbol.name(): _val(m.msg) for m in pm})
            if why:
                out["viol"].append(dict(base, kind="message_violates_type_or_constraint", message="computed length", why=why,
                                        history=[(m.msg.symbol.name(), repr(_val(m.msg))) for m in pm], sig="message_violates_type_or_constraint:computed_length"))
        if sc.get("echo"):
            vals = {m.msg.symbol.name(): _val(m.msg) for m in pm}
            if "<ok>" in vals and "<req>" in vals and vals["<ok>"][2:] != vals["<req>"][1:]:
                out["viol"].append(dict(base, kind="message_violates_type_or_constraint", message="ok", value=vals["<ok>"], request=vals["<req>"],
                                        sig="message_violates_type_or_constraint:ok_echo"))
        # every transmitted message appears exactly once and in order: the tree's fuzzer messages are a prefix-aligned match of the send log
        if fuzz_msgs != [(s, r, v) for (s, r, v) in sent[: len(fuzz_msgs)]] or (ti == len(trees) - 1 and len(trees) == 1 and len(sent) != len(fuzz_msgs)):
            out["viol"].append(dict(base, kind="transmitted_messages_differ_from_tree", tree=[repr(x) for x in fuzz_msgs], sent=[repr(x) for x in sent],
                                    sig="transmitted_messages_differ_from_tree"))
        # every accepted remote message is exactly (a prefix-aligned piece of) what that peer delivered
        for peer, vals in remote.items():
            joined = vals[0][:0].join(vals)
            stream = delivered.get(peer, joined[:0])
            if not stream.startswith(joined):
                out["viol"].append(dict(base, kind="accepted_remote_data_differs_from_delivered", peer=peer, accepted=repr(joined), delivered=repr(stream),
                                        sig="accepted_remote_data_differs_from_delivered"))
        complete = WordMatcher(langg, letters).member()
        if expect == "complete" and not complete and out["error"] is None and _no_withheld_timeout(ch):
            out["viol"].append(dict(base, kind="valid_interaction_not_completed", history=letters, sig="valid_interaction_not_completed"))
        if expect == "error" and complete:
            out["viol"].append(dict(base, kind="misbehaving_peer_accepted", history=letters, sig="misbehaving_peer_accepted"))
    if expect == "complete" and not trees and out["error"] is None and not out["horizon"]:
        out["viol"].append(dict(base, kind="no_result_and_no_error", sig="no_result_and_no_error"))
    if expect == "complete" and out["error"] and _no_withheld_timeout(ch):
        out["viol"].append(dict(base, kind="valid_interaction_raises", error=out["error"], sig="valid_interaction_raises:" + out["error"].split(":")[0]))


def _no_withheld_timeout(ch) -> bool:
    """no scheduling decision withheld data until the timeout expired"""
    for (n, label), c in zip(ch.points, ch.choices):
        if label == "sleep" and c == n - 1:
            return False
    return True


def _slow_delivery(ch) -> bool:
    """some poll delivered less than everything that was pending (the peer is slow)"""
    return any(c != 0 for c in ch.choices)


def explore(ctx: Ctx, bound: int, cap: int) -> dict:
    seeds = [0, 1] if ctx.quick else [0, 1, 2]
    frontier = [(s, p, [], seed, pol) for s in SCENARIOS for p in SCENARIOS[s]["scripts"] for seed in SCENARIOS[s].get("seeds", seeds) for pol in ("zero", "trickle")]
    agg = {"executions": 0, "horizon": 0, "errors": {}, "capped": 0, "outcomes": set(), "points_default": {}}
    samples = []
    for level in range(bound + 1):
        results = pmap_tagged(io_run, frontier, chunk=2)
        nxt = []
        for task, r in zip(frontier, results):
            agg["executions"] += 1
            agg["horizon"] += r["horizon"]
            if r["error"]:
                k = r["error"].split(":")[0]
                agg["errors"][k] = agg["errors"].get(k, 0) + 1
            agg["outcomes"].add((r["scen"], r["script"], r["outcome"]))
            if level == 0:
                agg["points_default"][f"{r['scen']}/{r['script']}/{r['seed']}/{r['policy']}"] = len(r["points"])
                if len(samples) < 4:
                    samples.append({"scenario": r["scen"], "peer": r["script"], "sent": r["sent"], "delivered": r["delivered"], "trees": r["n_trees"], "error": r["error"]})
            for v in r["viol"]:
                ctx.violation(v)
            if level < bound:
                pre = task[2]
                for i in range(len(pre), len(r["points"])):
                    for alt in range(r["points"][i]):
                        if alt != r["defaults"][i]:
                            nxt.append((task[0], task[1], r["choices"][:i] + [alt], task[3], task[4]))
        if len(nxt) > cap:
            agg["capped"] += len(nxt) - cap
            step = len(nxt) / cap
            nxt = [nxt[int(k * step)] for k in range(cap)]
        frontier = nxt
        if not frontier:
            break
    agg["distinct_outcomes"] = len(agg.pop("outcomes"))
    agg["samples"] = samples
    return agg


def free_running(task):
    """Race-detector complement: the same scenario with REAL listener threads and real time, no
    scheduler (a cooperative scheduler's hand-offs would hide unsynchronised access)."""
    import threading
    import time as _time
    from fandango.language.grammar import FuzzingMode

    scen, script_name, seed = task
    sc = SCENARIOS[scen]
    script, early, expect = sc["scripts"][script_name]
    RT.reset(Chooser(), {}, [])
    RT.active = False
    spec = build(PRELUDE + sc["body"])
    io = spec.grammar.get_spec_env()[0]["FandangoIO"].instance()
    RT.io = io
    threads = []
    orig_on_send = RT.on_send
    sent = []
    delivered = {}
    lock = threading.Lock()

    def on_send(party, message, recipient):
        text = bytes(message) if message.should_be_serialized_to_bytes() else str(message)
        sent.append((party, recipient, text))

        def peer_thread(peer, rcpt, data, delay):
            for i in range(len(data)):
                _time.sleep(delay)
                with lock:  # recording and handing over are one step: the recorded order IS the arrival order
                    delivered[peer] = delivered.get(peer, data[:0]) + data[i:i + 1]
                    io.parties[rcpt].receive(data[i:i + 1], peer)

        for k, (peer, rcpt, data) in enumerate(script.get(text, [])):
            th = threading.Thread(target=peer_thread, args=(peer, rcpt, data, 0.002 * (1 + (seed + k) % 3)), daemon=True)
            threads.append(th)
            th.start()

    RT.on_send = on_send
    out = {"viol": [], "error": None, "horizon": False}
    trees = []
    try:
        random.seed(seed)
        trees = spec.fuzz(mode=FuzzingMode.IO, **dict(SETTINGS, **sc.get("settings", {})))
    except Exception as e:
        out["error"] = type(e).__name__ + ": " + str(e)[:120]
    finally:
        RT.on_send = orig_on_send
        for th in threads:
            th.join(2)
    RT.sent = sent
    RT.delivered = delivered
    ch = Chooser()
    judge((scen, script_name, [], seed, "free"), ch, sc, expect, trees, out)
    return out


def run(ctx: Ctx) -> None:
    bound = 2 if ctx.quick else 3
    agg = explore(ctx, bound, cap=4000 if ctx.quick else 60000)
    free_tasks = [(s, p, seed) for s in SCENARIOS for p, v in SCENARIOS[s]["scripts"].items() if v[2] == "complete" for seed in range(2 if ctx.quick else 6)]
    free = pmap_tagged(free_running, free_tasks, chunk=1)
    # the free-running pass uses real threads and real time: whether a valid peer is fast enough for the run to
    # complete depends on machine load, so only the safety oracles are judged here (completion is decided by
    # the controlled-scheduler exploration above, where time is virtual)
    liveness = {"valid_interaction_not_completed", "no_result_and_no_error", "valid_interaction_raises"}
    free_incomplete = 0
    for r in free:
        for v in r["viol"]:
            if v["kind"] in liveness:
                free_incomplete += 1
                continue
            v["free_running"] = True
            ctx.violation(v)
    agg["free_running_runs_cut_short_by_real_time"] = free_incomplete
    agg["free_running_executions"] = len(free)
    ctx.log(str({k: v for k, v in agg.items() if k not in ("samples", "points_default")}))
    ctx.coverage.update(
        states=agg["executions"], transitions=agg["executions"], traces_validated_against_impl=agg["executions"],
        samples=agg["samples"], exhaustive=agg["capped"] == 0, deviation_bound=bound, scenarios={s: list(SCENARIOS[s]["scripts"]) for s in SCENARIOS},
        **{k: v for k, v in agg.items() if k != "samples"},
        rule="execution = one run of Fandango.fuzz(mode=IO) against scripted peers under one schedule (number of pending remote units delivered before each "
             "buffer access / poll, or timeout expiry); all schedules within the deviation bound of 'everything arrives immediately'; "
             "oracle: message history is a prefix of an interaction at every step, attribution, transmitted == recorded, accepted remote data == delivered data, "
             "constraints on every message, misbehaving peers never accepted",
    )
    if agg["capped"]:
        ctx.cap(f"{agg['capped']} schedule prefixes beyond the cap were not run")
    ctx.assumptions += ["the fuzzer's own random decisions are fixed by random.seed(k), k in a small set; schedules are explored for each seed",
                        "remote data is delivered at add_receive's own granularity (one character/byte), which subsumes every coarser transport fragmentation",
                        "virtual time: the clock only advances through sleep(); when nothing is pending a poll jumps to timeout expiry"]
