"""C06 — parsing terminates (bounded liveness: admission budget far above any terminating run)."""
from mc.common import Ctx
from mc.parser_sweep import ADMISSION_BUDGET, sweep

LEVEL = "model_checking"


def run(ctx: Ctx) -> None:
    agg = sweep(ctx, {"C06"})
    from mc import computed_sweep
    comp = computed_sweep.sweep(ctx, {"C06"})
    from mc.parser_sweep import sweep_first_tree
    first = sweep_first_tree(ctx)
    ctx.coverage.update(
        computed_repetition_sweep=comp, first_tree_requests_on_cyclic_grammars=first,
        states=agg["words"] + comp["words"], transitions=2 * (agg["words"] + comp["words"]), traces_validated_against_impl=2 * (agg["words"] + comp["words"]),
        samples=agg["samples"], exhaustive=agg["skipped_words"] == 0 and comp["skipped_words"] == 0,
        grammars=agg["grammars"], words=agg["words"], budget=ADMISSION_BUDGET,
        max_admissions_of_a_terminating_request=agg["max_adm"], budget_hits=agg["budget_hits"],
        skipped_words_after_budget_hits=agg["skipped_words"], spec_errors=agg["spec_errors"],
        rule="each (grammar, word) is parsed as whole forest (COMPLETE) and in prefix mode (INCOMPLETE); a request "
             "that needs more than the admission budget or 20 s is reported; first-tree requests do a prefix of the forest's work and are made separately on the grammars with a derivation cycle, where the forest request is a recorded non-terminating case",
    )
