"""C15 — printing a spec and reading it back preserves its meaning.

Bounded-exhaustive over grammars (every rule body of operator depth <= 2 over printer-oriented
atoms: groups under each postfix operator, every bound form, literals with both quote kinds,
backslashes, non-ASCII, non-printables, bytes, str/bytes regexes, bits, generators) and over
the C07 constraint family.  Procedure: read the generated text, print it with the real
printers (repr(grammar), constraint.format_as_spec()), read the printed text.  Oracle: the
second read succeeds; the re-read grammar denotes the same language (structural comparison of
the two grammars converted node by node into RefGrammar, confirmed by a distinguishing word);
the re-read constraint gives the same verdict on every enumerated tree.
"""
from __future__ import annotations

from mc import families
from mc.common import Ctx, pmap, rotate, pmap_tagged
from mc.fd import build
from mc.refgrammar import Alt, Bit, Lit, NT, Opt, Plus, RefGrammar, Rep, Rx, Seq, Star, WordMatcher, enum_trees, snap_text, to_fan

LEVEL = "model_checking"


def atoms() -> list:
    return [Lit("a"), Lit("it's"), Lit('q"q'), Lit("b\\s"), Lit("é"), Lit("\n\t"), Lit("'\""), Rx("[ab]"), Rx("a'b"), Rx('c"d'), Rx("""['"]a"""), Rx("\\d\\."), NT("<x>")]


def bin_atoms() -> list:
    return [Lit(b"\x00\xff"), Lit(b"a'\""), Rx("[\\x00-\\x02]", True), Bit(1), Bit(0), NT("<x>")]


def convert(node):
    """real grammar node -> RefGrammar AST (normalised)"""
    from fandango.language.grammar.nodes.alternative import Alternative
    from fandango.language.grammar.nodes.concatenation import Concatenation
    from fandango.language.grammar.nodes.non_terminal import NonTerminalNode
    from fandango.language.grammar.nodes.repetition import Option, Plus as FPlus, Repetition, Star as FStar
    from fandango.language.grammar.nodes.terminal import TerminalNode
    from fandango.language.tree_value import TreeValueType

    if isinstance(node, Alternative):
        return norm(Alt(tuple(convert(x) for x in node.alternatives)))
    if isinstance(node, Concatenation):
        return norm(Seq(tuple(convert(x) for x in node.nodes)))
    if isinstance(node, FStar):
        return Star(convert(node.node))
    if isinstance(node, FPlus):
        return Plus(convert(node.node))
    if isinstance(node, Option):
        return Opt(convert(node.node))
    if isinstance(node, Repetition):
        if node.bounds_constraint is not None:
            return Rep(convert(node.node), 0, None, expr="computed")
        return Rep(convert(node.node), node.min, node.internal_max)
    if isinstance(node, NonTerminalNode):
        return NT(node.symbol.name(), node.sender, node.recipient)
    if isinstance(node, TerminalNode):
        sym = node.symbol
        v = sym.value()
        if sym.is_regex:
            if v.is_type(TreeValueType.BYTES):
                return Rx(bytes(v).decode("latin-1"), True)
            return Rx(str(v), False)
        if v.is_type(TreeValueType.TRAILING_BITS_ONLY):
            return Bit(int(v))
        if v.is_type(TreeValueType.BYTES):
            return Lit(bytes(v))
        return Lit(str(v))
    raise TypeError(type(node))


def norm(n):
    if isinstance(n, (Seq, Alt)):
        items = []
        for x in n.items:
            x = norm(x)
            if type(x) is type(n):
                items.extend(x.items)
            else:
                items.append(x)
        if len(items) == 1:
            return items[0]
        return type(n)(tuple(items))
    if isinstance(n, (Opt, Star, Plus)):
        return type(n)(norm(n.x))
    if isinstance(n, Rep):
        return Rep(norm(n.x), n.lo, n.hi, n.expr)
    return n


def to_ref(spec, binary) -> RefGrammar:
    return RefGrammar({k.name(): convert(v) for k, v in spec.grammar.rules.items()}, binary=binary)


def distinguishing_word(g1: RefGrammar, g2: RefGrammar):
    """a word of one language that is not in the other (search over both grammars' small derivations)"""
    strings = ["", "a", "b", "ab", "a'b", 'c"d', "1.", "7.", '"a', "'a"]
    for ga, gb in ((g1, g2), (g2, g1)):
        try:
            trees = enum_trees(ga, "<start>", 9, rx_strings=strings, open_cap=3)
        except RecursionError:
            continue
        for t in trees[:400]:
            try:
                w = snap_text(t)
            except ValueError:
                continue
            if ga.binary and w == "":
                w = b""
            if isinstance(w, str) and ga.binary:
                continue
            try:
                if WordMatcher(ga, w).member() and not WordMatcher(gb, w).member():
                    return w, ("first_only" if ga is g1 else "second_only")
            except Exception:
                continue
    # long runs of one token (bounds near the process-wide repetition cap of 20 are out of reach of the small derivations above)
    for tok in ("x", "a", "b"):
        for k in (19, 20, 21, 22):
            w = tok * k
            try:
                m1, m2 = WordMatcher(g1, w).member(), WordMatcher(g2, w).member()
            except Exception:
                continue
            if m1 != m2:
                return w, ("first_only" if m1 else "second_only")
    return None, None


def grammar_items(tier: str) -> list:
    out = []
    unary = families.UNARY
    ats = atoms()
    bodies = families.exprs(ats, 2 if tier != "quick" else 2, unary=unary, full_binary_depth=1)
    if tier == "quick":
        d1 = families.exprs(ats, 1, unary=unary)
        small = families.exprs([Lit("a"), Lit("it's"), Rx("[ab]"), NT("<x>")], 2, unary=unary, full_binary_depth=1)
        seen, bodies = set(), []
        for b in d1 + small:
            if b not in seen:
                seen.add(b)
                bodies.append(b)
    for e in bodies:
        out.append((RefGrammar({"<start>": e, "<x>": Alt((Lit("x"), Lit("y")))}), "text"))
    # bounds at and around the process-wide repetition cap (20): an open end must stay open in print
    for lo in (19, 20, 21):
        out.append((RefGrammar({"<start>": Rep(NT("<x>"), lo, None), "<x>": Alt((Lit("x"), Lit("y")))}), "text"))
        out.append((RefGrammar({"<start>": Seq((Rep(Lit("a"), lo, None), Lit("b"))), "<x>": Lit("x")}), "text"))
    out.append((RefGrammar({"<start>": Rep(NT("<x>"), 20, 20), "<x>": Alt((Lit("x"), Lit("y")))}), "text"))
    for e in families.exprs(bin_atoms(), 1 if tier == "quick" else 2, unary=[unary[0], unary[1], unary[2], unary[3], unary[5]], full_binary_depth=1):
        out.append((RefGrammar({"<start>": e, "<x>": Alt((Lit(b"\x01"), Lit(b"\x02")))}, binary=True), "binary"))
    # grouping frames of operator depth 3: postfix operator over a concatenation / alternative whose first, middle
    # and last elements are themselves groups, postfixed items or atoms, followed by a tail
    a, b, c, d, e = Lit("a"), Lit("b"), Lit("c"), Lit("d"), Lit("e")
    ends = [a, Alt((a, b)), Opt(a), Star(Alt((a, b))), Seq((a, b)), Rep(Alt((a, b)), 1, 2)]
    ends2 = [e, Alt((d, e)), Opt(e), Plus(Alt((d, e))), Rep(Alt((d, e)), 2, None)]
    frames = []
    for u in (unary if tier != "quick" else [unary[1], unary[0], unary[4], unary[5]]):
        for first in ends:
            for last in ends2:
                for mid in ((), (c,)):
                    frames.append(Seq((u(Seq((first,) + mid + (last,))), Lit("z"))))
                frames.append(Seq((u(Alt((Seq((first, c)), last))), Lit("z"))))
                frames.append(Seq((NT("<x>"), u(Seq((NT("<x>"), first, last))))))
    for f in frames:
        out.append((RefGrammar({"<start>": f, "<x>": Alt((Lit("x"), Lit("y")))}), "frame"))
    # whole rule bodies that begin and end with a group (no operator, no tail), in <start> and in an inner rule
    for first in ends:
        for last in ends2:
            for mid in ((), (c,), (NT("<x>"),)):
                body = Seq((first,) + mid + (last,))
                out.append((RefGrammar({"<start>": body, "<x>": Alt((Lit("x"), Lit("y")))}), "bare_body"))
                out.append((RefGrammar({"<start>": Seq((NT("<p>"), Lit("!"))), "<p>": body, "<x>": Alt((Lit("x"), Lit("y")))}), "bare_body"))
            out.append((RefGrammar({"<start>": Alt((Seq((first, c)), last)), "<x>": Alt((Lit("x"), Lit("y")))}), "bare_body"))
    # the same text once as a plain literal and once as a regex (and as str / bytes) in one spec, both orders
    for txt in ("x+", "[ab]", "a.", "\\d"):
        for first_is_regex in (False, True):
            l, r = (Rx(txt), Lit(txt)) if first_is_regex else (Lit(txt), Rx(txt))
            out.append((RefGrammar({"<start>": Seq((NT("<l>"), Lit(":"), NT("<r>"))), "<l>": l, "<r>": r}), "same_text_two_kinds"))
            lb, rb = (Rx(txt, True), Lit(txt.encode())) if first_is_regex else (Lit(txt.encode()), Rx(txt, True))
            out.append((RefGrammar({"<start>": Seq((NT("<l>"), Lit(b":"), NT("<r>"))), "<l>": lb, "<r>": rb}, binary=True), "same_text_two_kinds"))
        out.append((RefGrammar({"<start>": Seq((NT("<l>"), Lit(":"), NT("<r>"))), "<l>": Lit(txt), "<r>": Lit(txt.encode())}), "same_text_two_kinds"))
    # generators and computed repetitions
    out.append((RefGrammar({"<start>": Seq((NT("<n>"), Rep(NT("<x>"), 0, None, expr="int(<n>)"))), "<n>": Alt((Lit("1"), Lit("2"))), "<x>": Lit("x")}), "computed_rep"))
    out.append((RefGrammar({"<start>": Seq((NT("<k>"), NT("<v>"))), "<k>": Lit("k"), "<v>": Plus(NT("<x>")), "<x>": Alt((Lit("1"), Lit("2")))},
                           generators={"<v>": "str(1) + '2'"}), "generator"))
    out.append((RefGrammar({"<start>": Seq((NT("<v>"), NT("<w>"))), "<v>": Plus(NT("<x>")), "<w>": Alt((Lit("1"), Lit("2"))), "<x>": Alt((Lit("1"), Lit("2")))},
                           generators={"<v>": "str(<w>) * 2"}), "generator_arg"))
    return out


def work_grammar(item):
    g, kind = item
    fan = g.fan()
    out = {"fan": fan, "kind": kind, "viol": None, "status": None}
    try:
        spec1 = build(fan)
    except Exception as e:
        out["status"] = "source_rejected:" + type(e).__name__
        return out
    printed = repr(spec1.grammar) + "\n"
    cons = []
    for c in spec1.constraints:
        try:
            cons.append("where " + c.format_as_spec())
        except Exception as e:
            cons.append("where <format_as_spec raises " + type(e).__name__ + ">")
    printed_full = (g.prelude or "") + printed + "".join(x + "\n" for x in cons)
    g1 = to_ref(spec1, g.binary)
    base = {"source": fan, "printed": printed_full, "kind_of_grammar": kind}
    try:
        spec2 = build(printed_full)
    except Exception as e:
        out["status"] = "printed_rejected"
        out["viol"] = dict(base, kind="printed_spec_cannot_be_read", error=f"{type(e).__name__}: {e}"[:200],
                           sig=f"printed_rejected:{kind}:{_shape_sig(g)}")
        return out
    g2 = to_ref(spec2, g.binary)
    out["status"] = "roundtrip"
    if {k: norm(v) for k, v in g1.rules.items()} != {k: norm(v) for k, v in g2.rules.items()}:
        w, side = distinguishing_word(g1, g2)
        if w is not None:
            out["viol"] = dict(base, kind="printed_spec_denotes_another_language", word=repr(w), which=side, sig=f"language_changed:{kind}:{_shape_sig(g)}")
        else:
            out["status"] = "structure_differs_no_witness"
    if out["viol"] is None and (len(spec1.constraints) != len(spec2.constraints) or set(spec1.grammar.generators) != set(spec2.grammar.generators)):
        out["viol"] = dict(base, kind="printed_spec_loses_constraints_or_generators", sig=f"lost_parts:{kind}")
    if out["viol"] is None and g.generators:
        for k, gen in spec1.grammar.generators.items():
            g2gen = spec2.grammar.generators.get(k)
            if g2gen is None or _gen_sig(gen) != _gen_sig(g2gen):
                out["viol"] = dict(base, kind="printed_generator_differs", symbol=k.name(), sig=f"generator_changed:{kind}")
    return out


def _gen_sig(gen):
    call = gen.call
    for i, (name, nt) in enumerate(sorted(gen.nonterminals.items())):
        call = call.replace(name, nt.symbol.name())
    return call


def _shape_sig(g: RefGrammar) -> str:
    """which printer-relevant features the start rule has (identifies a defect class by input shape)"""
    feats = set()

    def walk(n, under_postfix):
        if isinstance(n, (Seq, Alt)):
            if under_postfix:
                feats.add("group_under_postfix")
            for x in n.items:
                walk(x, False)
        elif isinstance(n, (Opt, Star, Plus)):
            walk(n.x, True)
        elif isinstance(n, Rep):
            feats.add("open_bound" if n.hi is None and n.expr is None else ("computed_bound" if n.expr else "bounded"))
            walk(n.x, True)
        elif isinstance(n, Lit):
            v = n.v if isinstance(n.v, str) else n.v.decode("latin-1")
            if "'" in v and '"' in v:
                feats.add("both_quotes")
            if "\\" in v:
                feats.add("backslash")
            if any(ord(c) < 32 or ord(c) > 126 for c in v):
                feats.add("nonprintable_or_nonascii")
        elif isinstance(n, Rx):
            if "'" in n.pat or '"' in n.pat:
                feats.add("regex_with_quote")
            if "\\" in n.pat:
                feats.add("regex_with_backslash")

    walk(g.rules["<start>"], False)
    return ",".join(sorted(feats))


def work_constraint(item):
    from mc.checks import c07
    from mc.refconstraint import from_snapshot, text
    which, idx = item
    f = c07.formulas(which, "quick")[idx]
    ctext = text(f)
    fan = c07.GRAMMARS[which].fan()
    out = {"constraint": ctext, "viol": None, "status": None, "pairs": 0}
    try:
        c1 = build(fan, [ctext]).constraints[0]
    except Exception:
        out["status"] = "source_rejected"
        return out
    try:
        printed = c1.format_as_spec()
    except Exception as e:
        out["status"] = "print_raises"
        out["viol"] = {"kind": "constraint_printer_raises", "constraint": ctext, "error": repr(e)[:150], "sig": f"constraint_printer_raises:{type(c1).__name__}"}
        return out
    base = {"constraint": ctext, "printed": printed, "compiled_as": type(c1).__name__}
    try:
        c2 = build(fan, [printed]).constraints[0]
    except Exception as e:
        out["status"] = "printed_rejected"
        out["viol"] = dict(base, kind="printed_constraint_cannot_be_read", error=f"{type(e).__name__}: {e}"[:200],
                           sig=f"printed_constraint_rejected:{type(c1).__name__}:{_cshape(ctext)}")
        return out
    out["status"] = "roundtrip"
    for snapshot in c07.trees_for(which, "quick"):
        t1, t2 = from_snapshot(snapshot), from_snapshot(snapshot)
        v1, v2 = c07.real_check(c1, t1), c07.real_check(c2, t2)
        out["pairs"] += 1
        if v1 != v2:
            def flat(x: str) -> str:
                return x.replace("(", "").replace(")", "").replace(" ", "").replace("'", '"')
            out["viol"] = dict(base, kind="printed_constraint_gives_another_verdict", tree=str(t1), original=str(v1), reread=str(v2),
                               differs_only_in_parentheses=(flat(ctext) == flat(printed) or flat(_modernise(ctext)) == flat(printed)),
                               sig=f"verdict_changed:{type(c1).__name__}:{_cshape(ctext)}")
            break
    return out


def _modernise(ctext: str) -> str:
    """old-style quantifier text in the new style (for comparing source and printed text)"""
    import re
    m = re.match(r"^(exists|forall) (<\w+>) in (.*?): (.*)$", ctext)
    if not m:
        return ctext
    kw = "any" if m.group(1) == "exists" else "all"
    return f"{kw}({_modernise(m.group(4))} for {m.group(2)} in *{m.group(3)})"


def _cshape(ctext: str) -> str:
    feats = []
    for key, name in (("|", "bars"), ("len(*", "len_star"), ("exists", "legacy_exists"), ("forall", "legacy_forall"), ("any(", "any"), ("all(", "all"),
                      ("..", "dotdot"), ("[", "index"), (" in *", "in_star"), ("not ", "not")):
        if key in ctext:
            feats.append(name)
    return ",".join(feats)


def run(ctx: Ctx) -> None:
    from mc.checks import c07
    gitems = rotate(grammar_items(ctx.tier), ctx.seed)
    citems = []
    for which in c07.GRAMMARS:
        n = len(c07.formulas(which, "quick"))
        citems += [(which, i) for i in range(0, n, 2 if ctx.quick else 1)]
    ctx.log(f"{len(gitems)} grammars, {len(citems)} constraints")
    gres = pmap_tagged(work_grammar, gitems, chunk=8)
    cres = pmap_tagged(work_constraint, citems, chunk=4)
    gstat, cstat = {}, {}
    for r in gres:
        gstat[r["status"]] = gstat.get(r["status"], 0) + 1
        if r["viol"]:
            ctx.violation(r["viol"])
    pairs = 0
    for r in cres:
        cstat[r["status"]] = cstat.get(r["status"], 0) + 1
        pairs += r["pairs"]
        if r["viol"]:
            ctx.violation(r["viol"])
    ctx.coverage.update(
        states=len(gitems) + len(citems), transitions=2 * (len(gitems) + len(citems)) + pairs, traces_validated_against_impl=len(gitems) + pairs,
        samples=[{"grammar": gitems[i][0].fan()} for i in range(3)] + [{"constraint": cres[0]["constraint"]}], exhaustive=True,
        grammar_status=gstat, constraint_status=cstat, constraint_tree_pairs=pairs,
        rule="state = spec (grammar of the family, or C07 constraint on its grammar); transitions = read, print, re-read; the re-read grammar is compared structurally "
             "(RefGrammar conversion) with a distinguishing word as confirmation, the re-read constraint by its verdict on every enumerated tree",
    )
