"""C18 — Fandango instances in one process do not influence each other.

Explicit-state BFS over histories of activity on spec objects A (and a third spec C) before
B is used, each history executed in its OWN fresh process (forked from a parent that has only
imported fandango).  Oracle: B's observations (ordered solutions of a seeded fuzz, parse
forest) equal those of B used alone in a fresh process.  A fingerprint of the module-level
mutable state of fandango.* is recorded per state to explain a difference.
"""
from __future__ import annotations

import itertools

from mc.common import Ctx, pmap, rotate, pmap_tagged
import mc.fd  # noqa: F401

LEVEL = "model_checking"

# A stagnates (unsatisfiable-looking constraint over a starred grammar) so its adaptive tuner moves
A_SPECS = {
    "A_stagnating": '<start> ::= <x>*\n<x> ::= "a" | "b"\nwhere str(<start>).count("a") == 7 and str(<start>).count("b") == 9 and len(str(<start>)) == 3\n',
    "A_easy": '<start> ::= <x>+ "!"\n<x> ::= "a" | "b"\nwhere len(str(<start>)) > 2\n',
    # solvable, but only after some stagnating generations: fuzz() then stops consuming the generator EARLY (desired_solutions reached)
    "A_slow": '<start> ::= <d>+\n<d> ::= r"[0-9]"\nwhere int(str(<start>)) % 97 == 3\n',
    # an optimisation goal over the same trees as B_soft
    "A_soft": '<start> ::= <d>+\n<d> ::= r"[0-9]"\nminimizing int(str(<start>))\nwhere len(str(<start>)) < 7\n',
    # the texts that B_regex_text uses as regexes, here as plain string literals (and the other way round)
    "A_literal_text": '<start> ::= "[a-z]+" "=" "[0-9]+"\n',
    "A_regex_text": '<start> ::= r"[a-z]+" "=" r"[0-9]+"\n',
    # protocol mode: two messages sent by the fuzzer, the first one stagnates (the tuner raises the repetition cap per message)
    # the same extra-constraint TEXT means something else in A than in B (each spec defines its own helper)
    "A_helper": 'def ok(x):\n    return int(str(x)) % 2 == 0\n<start> ::= <d>{3}\n<d> ::= r"[0-9]"\n',
    "A_io": "<start> ::= <StdOut:first> <StdOut:second>\n<first> ::= 'A' <n> '\\n'\n<second> ::= 'B' <n> '\\n'\n<n> ::= <d>+\n<d> ::= '0' | '1' | '2' | '3' | '4' | '5' | '6' | '7' | '8' | '9'\nwhere int(str(<first>.<n>)) % 97 == 13\n",
}
B_SPECS = {
    "B_star": ('<start> ::= "a"* <y>\n<y> ::= "b"+ | "c"{2,}\n', "aabb"),
    "B_constrained": ('<start> ::= <x>* ";"\n<x> ::= "a" | "bb"\nwhere len(str(<start>)) > 3\n', "abba;"),
    "B_same_words": ('<start> ::= <x>*\n<x> ::= "a" | "b"\nwhere len(str(<start>)) == 4\n', "abab"),
    "B_soft": ('<start> ::= <d>+\n<d> ::= r"[0-9]"\nmaximizing str(<start>).count("7")\nwhere len(str(<start>)) < 7\n', "7747"),
    "B_helper": ('def ok(x):\n    return int(str(x)) % 2 == 1\n<start> ::= <d>{3}\n<d> ::= r"[0-9]"\n', "123"),
    "B_regex_text": ('<start> ::= <k> "=" <v>\n<k> ::= r"[a-z]+"\n<v> ::= r"[0-9]+"\n', "abc=123"),
    "B_literal_text": ('<start> ::= <k> "=" <v>\n<k> ::= "[a-z]+" | "k"\n<v> ::= "[0-9]+" | "7"\n', "[a-z]+=[0-9]+"),
}
EXTRA = {"B_helper": ["ok(<start>)"]}   # extra constraints handed to B's observed search (and to A.fuzz_extra)
OPS = ["A.fuzz", "A.fuzz_extra", "A.fuzz_long", "A.fuzz_until_found", "A.parse", "A.construct", "A.fuzz_io", "C.construct", "C.fuzz"]  # activity on OTHER spec objects only


def fingerprint():
    import fandango.language.grammar.nodes as nodes
    import fandango.constraints as cons
    from fandango.io import FandangoIO
    return {"nodes.MAX_REPETITIONS": nodes.MAX_REPETITIONS, "constraints.LEGACY": cons.LEGACY, "FandangoIO._instances": len(FandangoIO._instances)}


def observe_b(b, extra=None):
    sols = []
    try:
        b.fuzz(desired_solutions=6, max_generations=5, population_size=8, random_seed=11, **({"extra_constraints": list(extra)} if extra else {}),
               solution_callback=lambda t, i: sols.append(str(t)))
        err = None
    except Exception as e:
        err = type(e).__name__
    return sols, err


def run_history(task):
    from mc.fd import build, snap
    a_name, b_name, hist = task[:3]
    late = len(task) > 3 and task[3]     # B is constructed only after the activity on the other objects
    b_text, b_word = B_SPECS[b_name]
    a = c = None
    b = None if late else build(b_text)
    for op in hist:
        try:
            if op.startswith("A") and a is None:
                a = build(A_SPECS[a_name])
            if op == "A.fuzz_io":
                if a_name == "A_io":
                    import os, sys
                    from fandango.language.grammar import FuzzingMode
                    sys.stdout.flush()
                    saved = os.dup(1)
                    devnull = os.open(os.devnull, os.O_WRONLY)
                    os.dup2(devnull, 1)      # the StdOut party writes the messages to the process's standard output
                    try:
                        a.fuzz(mode=FuzzingMode.IO, desired_solutions=1, max_generations=30, population_size=10, random_seed=1)
                    finally:
                        sys.stdout.flush()
                        os.dup2(saved, 1)
                        os.close(saved)
                        os.close(devnull)
                continue
            if op == "A.fuzz":
                a.fuzz(desired_solutions=2, max_generations=3, population_size=6, random_seed=5)
            elif op == "A.fuzz_extra":
                a.fuzz(desired_solutions=2, max_generations=3, population_size=6, random_seed=5, extra_constraints=["ok(<start>)"])
            elif op == "A.fuzz_long":
                a.fuzz(desired_solutions=50, max_generations=12, population_size=10, random_seed=6)
            elif op == "A.fuzz_until_found":
                a.fuzz(desired_solutions=2, max_generations=60, population_size=10, random_seed=7)
            elif op == "A.parse":
                list(a.parse("ab"))
                list(a.parse(b_word))
            elif op == "C.construct":
                c = build('<start> ::= <q>{2,}\n<q> ::= "q" | "r"\n')
            elif op == "C.fuzz":
                if c is None:
                    c = build('<start> ::= <q>{2,}\n<q> ::= "q" | "r"\n')
                c.fuzz(desired_solutions=3, max_generations=2, population_size=4, random_seed=2)
            elif op == "B.parse":
                list(b.parse(b_word))
            elif op == "B.fuzz_other_seed":
                b.fuzz(desired_solutions=2, max_generations=2, population_size=4, random_seed=99)
        except Exception:
            pass
    fp = fingerprint()
    if b is None:
        b = build(b_text)
    sols, err = observe_b(b, EXTRA.get(b_name))
    forest = [repr(snap(t)) for t in b.parse(b_word)]
    return {"solutions": sols, "error": err, "forest": forest, "fingerprint": fp}


# ---- one `fandango shell` session = one process: commands on other specs must not change what the last command prints
SHELL_A = '<start> ::= <item>+\n<item> ::= <digit> | "(" <start> ")"\n'
SHELL_B = '<start> ::= <word> (" " <word>)*\n<word> ::= <ascii_lowercase_letter>+\n'
SHELL_SETS = [[], ["set --population-size 20"], ["set --max-nodes 40"]]
SHELL_CMDS = ["fuzz -f {A} -n 3 --random-seed 1 --max-nodes 15 -o {O}", "fuzz -f {A} -n 2 --random-seed 2 --population-size 7 -o {O}",
              "fuzz -f {A} -n 2 --random-seed 3 --start-symbol <item> -o {O}", "parse -f {A} {W}"]


def shell_session(task):
    import io, os, shutil, sys, tempfile
    sets, cmds = task
    tmp = tempfile.mkdtemp(prefix="c18shell_", dir="/var/tmp")
    try:
        paths = {"A": os.path.join(tmp, "A.fan"), "B": os.path.join(tmp, "B.fan"), "O": os.path.join(tmp, "a.out"), "W": os.path.join(tmp, "w.txt")}
        open(paths["A"], "w").write(SHELL_A)
        open(paths["B"], "w").write(SHELL_B)
        open(paths["W"], "w").write("(1)2")
        script = "".join(c + "\n" for c in sets) + "".join(c.format(**paths) + "\n" for c in cmds) + f"fuzz -f {paths['B']} -n 4 --random-seed 1\n"
        os.environ["FANDANGO_DISABLE_UPDATE_CHECK"] = "1"
        from fandango.cli import main
        out, err = io.StringIO(), io.StringIO()
        saved = sys.stdout, sys.stderr, sys.stdin
        sys.stdin = io.StringIO(script)
        try:
            rc = main("shell", stdout=out, stderr=err)
        except SystemExit as e:
            rc = e.code
        finally:
            sys.stdout, sys.stderr, sys.stdin = saved
        lines = out.getvalue().splitlines()
        return {"rc": rc, "last4": lines[-4:], "n_lines": len(lines)}
    finally:
        shutil.rmtree(tmp, ignore_errors=True)


def shell_part(ctx: Ctx) -> dict:
    seqs = [()] + [(c,) for c in SHELL_CMDS]
    if not ctx.quick:
        seqs += list(itertools.product(SHELL_CMDS, repeat=2))
    tasks = [(tuple(sv), tuple(cm)) for sv in SHELL_SETS for cm in seqs]
    res = pmap_tagged(shell_session, tasks, chunk=1, fresh=True)
    base = {t[0]: r for t, r in zip(tasks, res) if t[1] == ()}
    for t, r in zip(tasks, res):
        ref = base[t[0]]
        if t[1] and (r["rc"], r["last4"]) != (ref["rc"], ref["last4"]):
            ctx.violation({"kind": "shell_command_influenced_by_earlier_command", "session_defaults": list(t[0]), "earlier_commands": list(t[1]),
                           "alone": ref["last4"], "after": r["last4"], "sig": f"shell:{t[1][-1].split()[0]}:{' '.join(x for x in t[1][-1].split() if x.startswith('--'))}"})
    return {"sessions": len(tasks), "distinct_outputs": len({tuple(r["last4"]) for r in res})}


def run(ctx: Ctx) -> None:
    depth = 2 if ctx.quick else 3
    hists = [()]
    for d in range(1, depth + 1):
        hists += list(itertools.product(OPS, repeat=d))
    # histories that only touch B itself before the observation are about B's own state, not about other instances: B-ops only count in combination
    hists = [h for h in hists if not h or any(not op.startswith("B") for op in h)] + [()]
    special = {"A_helper": ["B_helper"], "A_literal_text": ["B_regex_text"], "A_regex_text": ["B_literal_text"], "A_io": ["B_star", "B_constrained"]}
    plain_b = [b for b in B_SPECS if b not in ("B_soft", "B_regex_text", "B_literal_text", "B_helper")]
    pairs = []
    for a in A_SPECS:
        if a in special:
            pairs += [(a, b) for b in special[a]]
        elif a == "A_soft":
            pairs += [(a, "B_soft")]
        else:
            pairs += [(a, b) for b in plain_b] + ([(a, "B_soft")] if a == "A_slow" else [])
    def relevant(a, h):
        # operations that need a particular A are only run with it; the literal/regex pairs need no long fuzzing of A
        if "A.fuzz_io" in h and a != "A_io":
            return False
        if ("A.fuzz_extra" in h) != (a == "A_helper") and ("A.fuzz_extra" in h or any(op.startswith("A.fuzz") for op in h)):
            return False
        if a in ("A_literal_text", "A_regex_text") and any(op in ("A.fuzz_long", "A.fuzz_until_found", "A.fuzz_io") for op in h):
            return False
        if a == "A_io" and any(op in ("A.fuzz_long", "A.fuzz_until_found", "A.fuzz") for op in h):
            return False
        return True
    tasks = [(a, b, h, False) for (a, b) in pairs for h in dict.fromkeys(hists) if relevant(a, h)]
    # the same histories with B constructed only AFTER the activity on the other objects (histories up to length 2)
    tasks += [(a, b, h, True) for (a, b) in pairs for h in dict.fromkeys(hists) if h and len(h) <= 2 and relevant(a, h)]
    tasks = rotate(tasks, ctx.seed)
    ctx.log(f"{len(tasks)} histories, each in its own process")
    results = pmap_tagged(run_history, tasks, chunk=1, fresh=True)
    base = {}
    for t, r in zip(tasks, results):
        if t[2] == () and not t[3]:
            base[(t[0], t[1])] = r
    fps = set()
    for t, r in zip(tasks, results):
        ref = base[(t[0], t[1])]
        fps.add(tuple(sorted(r["fingerprint"].items())))
        if (r["solutions"], r["error"], r["forest"]) != (ref["solutions"], ref["error"], ref["forest"]):
            what = [k for k in ("solutions", "error", "forest") if r[k] != ref[k]]
            changed = {k: [ref["fingerprint"][k], v] for k, v in r["fingerprint"].items() if ref["fingerprint"][k] != v}
            ctx.violation({"kind": "instance_influenced_by_earlier_activity", "A": t[0], "B": t[1], "history": list(t[2]), "b_constructed_after_history": bool(t[3]), "differs_in": what,
                           "alone": repr(ref["solutions"])[:200], "after_history": repr(r["solutions"])[:200], "module_state_changed": changed,
                           "max_repetitions_changed": "nodes.MAX_REPETITIONS" in changed,
                           "sig": f"{t[1]}:{'+'.join(what)}:state={sorted(changed)}"})
    sh = shell_part(ctx)
    ctx.coverage.update(
        shell_sessions=sh,
        states=len(tasks) + sh["sessions"], transitions=sum(len(t[2]) for t in tasks) + len(tasks) + sh["sessions"], traces_validated_against_impl=len(tasks) + sh["sessions"],
        samples=[{"A": t[0], "B": t[1], "history": list(t[2])} for t in tasks[:4]], exhaustive=True, depth=depth, operations=OPS,
        distinct_module_state_fingerprints=len(fps),
        rule="state = history of operations on other spec objects (and unrelated requests on B) in one process; every history runs in its own fresh process; "
             "B's seeded solutions and parse forest are compared with B used alone",
    )
