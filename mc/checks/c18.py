"""C18 — Fandango instances in one process do not influence each other.

Explicit-state BFS over histories of activity on spec objects A (and a third spec C) before
B is used, each history executed in its OWN fresh process (forked from a parent that has only
imported fandango).  Oracle: B's observations (ordered solutions of a seeded fuzz, parse
forest) equal those of B used alone in a fresh process.  A fingerprint of the module-level
mutable state of fandango.* is recorded per state to explain a difference.
"""
from __future__ import annotations

import itertools

from mc.common import Ctx, pmap, rotate, pmap_tagged
import mc.fd  # noqa: F401

LEVEL = "model_checking"

# A stagnates (unsatisfiable-looking constraint over a starred grammar) so its adaptive tuner moves
A_SPECS = {
    "A_stagnating": '<start> ::= <x>*\n<x> ::= "a" | "b"\nwhere str(<start>).count("a") == 7 and str(<start>).count("b") == 9 and len(str(<start>)) == 3\n',
    "A_easy": '<start> ::= <x>+ "!"\n<x> ::= "a" | "b"\nwhere len(str(<start>)) > 2\n',
    # solvable, but only after some stagnating generations: fuzz() then stops consuming the generator EARLY (desired_solutions reached)
    "A_slow": '<start> ::= <d>+\n<d> ::= r"[0-9]"\nwhere int(str(<start>)) % 97 == 3\n',
    # an optimisation goal over the same trees as B_soft
    "A_soft": '<start> ::= <d>+\n<d> ::= r"[0-9]"\nminimizing int(str(<start>))\nwhere len(str(<start>)) < 7\n',
}
B_SPECS = {
    "B_star": ('<start> ::= "a"* <y>\n<y> ::= "b"+ | "c"{2,}\n', "aabb"),
    "B_constrained": ('<start> ::= <x>* ";"\n<x> ::= "a" | "bb"\nwhere len(str(<start>)) > 3\n', "abba;"),
    "B_same_words": ('<start> ::= <x>*\n<x> ::= "a" | "b"\nwhere len(str(<start>)) == 4\n', "abab"),
    "B_soft": ('<start> ::= <d>+\n<d> ::= r"[0-9]"\nmaximizing str(<start>).count("7")\nwhere len(str(<start>)) < 7\n', "7747"),
}
OPS = ["A.fuzz", "A.fuzz_long", "A.fuzz_until_found", "A.parse", "C.construct", "C.fuzz"]  # activity on OTHER spec objects only


def fingerprint():
    import fandango.language.grammar.nodes as nodes
    import fandango.constraints as cons
    from fandango.io import FandangoIO
    return {"nodes.MAX_REPETITIONS": nodes.MAX_REPETITIONS, "constraints.LEGACY": cons.LEGACY, "FandangoIO._instances": len(FandangoIO._instances)}


def observe_b(b):
    sols = []
    try:
        b.fuzz(desired_solutions=6, max_generations=5, population_size=8, random_seed=11,
               solution_callback=lambda t, i: sols.append(str(t)))
        err = None
    except Exception as e:
        err = type(e).__name__
    return sols, err


def run_history(task):
    from mc.fd import build, snap
    a_name, b_name, hist = task
    b_text, b_word = B_SPECS[b_name]
    a = c = None
    b = build(b_text)
    for op in hist:
        try:
            if op.startswith("A") and a is None:
                a = build(A_SPECS[a_name])
            if op == "A.fuzz":
                a.fuzz(desired_solutions=2, max_generations=3, population_size=6, random_seed=5)
            elif op == "A.fuzz_long":
                a.fuzz(desired_solutions=50, max_generations=12, population_size=10, random_seed=6)
            elif op == "A.fuzz_until_found":
                a.fuzz(desired_solutions=2, max_generations=60, population_size=10, random_seed=7)
            elif op == "A.parse":
                list(a.parse("ab"))
                list(a.parse(b_word))
            elif op == "C.construct":
                c = build('<start> ::= <q>{2,}\n<q> ::= "q" | "r"\n')
            elif op == "C.fuzz":
                if c is None:
                    c = build('<start> ::= <q>{2,}\n<q> ::= "q" | "r"\n')
                c.fuzz(desired_solutions=3, max_generations=2, population_size=4, random_seed=2)
            elif op == "B.parse":
                list(b.parse(b_word))
            elif op == "B.fuzz_other_seed":
                b.fuzz(desired_solutions=2, max_generations=2, population_size=4, random_seed=99)
        except Exception:
            pass
    fp = fingerprint()
    sols, err = observe_b(build(b_text) if False else b)
    forest = [repr(snap(t)) for t in b.parse(b_word)]
    return {"solutions": sols, "error": err, "forest": forest, "fingerprint": fp}


def run(ctx: Ctx) -> None:
    depth = 2 if ctx.quick else 3
    hists = [()]
    for d in range(1, depth + 1):
        hists += list(itertools.product(OPS, repeat=d))
    # histories that only touch B itself before the observation are about B's own state, not about other instances: B-ops only count in combination
    hists = [h for h in hists if not h or any(not op.startswith("B") for op in h)] + [()]
    pairs = [(a, b) for a in A_SPECS for b in B_SPECS if (a == "A_soft") == (b == "B_soft") or a == "A_slow"]
    tasks = rotate([(a, b, h) for (a, b) in pairs for h in dict.fromkeys(hists)], ctx.seed)
    ctx.log(f"{len(tasks)} histories, each in its own process")
    results = pmap_tagged(run_history, tasks, chunk=1, fresh=True)
    base = {}
    for t, r in zip(tasks, results):
        if t[2] == ():
            base[(t[0], t[1])] = r
    fps = set()
    for t, r in zip(tasks, results):
        ref = base[(t[0], t[1])]
        fps.add(tuple(sorted(r["fingerprint"].items())))
        if (r["solutions"], r["error"], r["forest"]) != (ref["solutions"], ref["error"], ref["forest"]):
            what = [k for k in ("solutions", "error", "forest") if r[k] != ref[k]]
            changed = {k: [ref["fingerprint"][k], v] for k, v in r["fingerprint"].items() if ref["fingerprint"][k] != v}
            ctx.violation({"kind": "instance_influenced_by_earlier_activity", "A": t[0], "B": t[1], "history": list(t[2]), "differs_in": what,
                           "alone": repr(ref["solutions"])[:200], "after_history": repr(r["solutions"])[:200], "module_state_changed": changed,
                           "max_repetitions_changed": "nodes.MAX_REPETITIONS" in changed,
                           "sig": f"{t[1]}:{'+'.join(what)}:state={sorted(changed)}"})
    ctx.coverage.update(
        states=len(tasks), transitions=sum(len(t[2]) for t in tasks) + len(tasks), traces_validated_against_impl=len(tasks),
        samples=[{"A": t[0], "B": t[1], "history": list(t[2])} for t in tasks[:4]], exhaustive=True, depth=depth, operations=OPS,
        distinct_module_state_fingerprints=len(fps),
        rule="state = history of operations on other spec objects (and unrelated requests on B) in one process; every history runs in its own fresh process; "
             "B's seeded solutions and parse forest are compared with B used alone",
    )
