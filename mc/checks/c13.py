"""C13 — incremental parsing is independent of fragmentation.

Schedules = all 2^(n-1) compositions of every input into consecutive non-empty
fragments, fed through IterativeParser.new_parse()/consume() exactly as
io/packetparser.py does.  Oracles: (1) differential — complete trees after the last
fragment == complete trees of the one-shot consume; (2) reference membership;
(3) can_continue() == False only if no non-empty extension of the consumed prefix is in
the reference language.
"""

from __future__ import annotations

import itertools

from mc import families
from mc.common import Ctx, pmap, rotate, tag, pmap_tagged
from mc.fd import AdmissionCounter, Budget, ParsingMode, Timeout, build, snap, time_limit
from mc.refgrammar import Alt, Bit, Lit, NT, Opt, Plus, RefGrammar, Rep, Rx, Seq, Star, TreeChecker, WordMatcher, snap_text, viable, words

LEVEL = "model_checking"


def family(tier: str) -> list:
    atoms = [Lit("ab"), Lit("abc"), Rx("a+"), Rx("[ab]*c"), Lit("a"), Rx("a?b")]
    gs = []
    d1 = families.exprs(atoms, 1, full_binary_depth=1)
    for e in d1:
        gs.append(RefGrammar({"<start>": e}))
    deep = []
    if tier != "quick":
        # operator depth 2 at the quick tier's input length; depth <= 1 and the hand-picked grammars at the longer one
        # (depth 2 at length 6 did not finish in 90 minutes)
        seen_d1 = set(d1)
        deep = [RefGrammar({"<start>": e}) for e in families.exprs(atoms, 2, full_binary_depth=1) if e not in seen_d1]
    extra = [
        RefGrammar({"<start>": Alt((Lit("ab"), Lit("abc")))}),
        RefGrammar({"<start>": Seq((Plus(Lit("ab")), Lit("c")))}),
        RefGrammar({"<start>": Seq((Rx("[ab]+"), Lit("ab")))}),
        RefGrammar({"<start>": Seq((NT("<x>"), Star(Seq((Lit(","), NT("<x>"))))), ), "<x>": Alt((Lit("ab"), Rx("b+")))}),
        RefGrammar({"<start>": Alt((Seq((Lit("a"), NT("<start>"))), Lit("abc")))}),
        RefGrammar({"<start>": Seq((Rep(Lit("ab"), 2, 2), Opt(Lit("abc"))))}),
        RefGrammar({"<start>": Seq((Rx("a*b"), Rx("b*c")))}),
        # regexes whose partial matches are not prefix-closed: a cut can fall where the text so far is only
        # a partial match although a shorter prefix was a complete one
        RefGrammar({"<start>": Seq((Rx("(ab)+"), Lit("c")))}),
        RefGrammar({"<start>": Seq((Rx("a(bc)?"), Opt(Lit("b"))))}),
        RefGrammar({"<start>": Seq((Rx("[ab]+(c[ab]+)?"), Lit("c")))}),
        RefGrammar({"<start>": Star(Seq((Rx("a(ba)*"), Lit("c"))))}),
        RefGrammar({"<start>": Alt((Rx("ab(ab)?c"), Seq((Rx("ab"), Lit("b")))))}),
    ]
    gs += extra
    out = []
    for g in gs:
        out.append((g, ["a", "b", "c"], 5 if tier == "quick" else 6))
    for g in deep:
        out.append((g, ["a", "b", "c"], 5))
    for g in families.binary_family(1):
        out.append((g, [0x00, 0x01, 0x61, 0xA5], 3 if tier == "quick" else 4))
    extra_bin = [
        # text literals / text regexes read from bytes input, with cuts inside them
        RefGrammar({"<start>": Seq((Lit("abc"), Lit(b"\x01"), Opt(Lit("ab"))))}, binary=True),
        RefGrammar({"<start>": Seq((Lit(b"\x01"), Alt((Lit("ab"), Lit("abc"))), Lit(b"\x00")))}, binary=True),
        RefGrammar({"<start>": Plus(Alt((Lit("ab"), Lit(b"\x01\x00"))))}, binary=True),
        RefGrammar({"<start>": Seq((Lit(b"\x01\x00"), Rx("[\\x00\\x01]+", True), Lit(b"\xa5")))}, binary=True),
        RefGrammar({"<start>": Seq((Rep(NT("<bit>"), 16, 16), Opt(Lit(b"\x01\x00")))), "<bit>": Alt((Bit(0), Bit(1)))}, binary=True),
        RefGrammar({"<start>": Alt((Lit(b"\x01\x00"), Lit(b"\x01\x00\xa5")))}, binary=True),
    ]
    for g in extra_bin:
        alpha = [0x00, 0x01, 0x61, 0x62, 0x63] if any(isinstance(v, str) for v in _lits(g)) else [0x00, 0x01, 0xA5]
        out.append((g, alpha, 4 if tier == "quick" else 5))
    return out


def _lits(g):
    acc = []

    def walk(n):
        if isinstance(n, Lit):
            acc.append(n.v)
        elif isinstance(n, (Seq, Alt)):
            for x in n.items:
                walk(x)
        elif isinstance(n, (Opt, Star, Plus, Rep)):
            walk(n.x)

    for b in g.rules.values():
        walk(b)
    return acc


def compositions(w):
    n = len(w)
    if n == 0:
        yield ()
        return
    for mask in range(1 << (n - 1)):
        parts = []
        last = 0
        for i in range(n - 1):
            if mask >> i & 1:
                parts.append(w[last : i + 1])
                last = i + 1
        parts.append(w[last:])
        yield tuple(parts)


def run_fragments(IterativeParser, rules, start, parts, counter, mode=None, parser=None):
    """Feed the fragments; returns (frozenset of complete tree snapshots, tuple of can_continue answers).
    parser: a long-lived parser object that has served other parses before (what Parser / the packet parser do: one
    IterativeParser, new_parse() per request); default: a brand-new one."""
    p = parser if parser is not None else IterativeParser(rules)
    p.new_parse(start, ParsingMode.COMPLETE if mode is None else mode)
    cont = []
    complete = set()
    for k, frag in enumerate(parts):
        got = []
        for tree, is_complete in p.consume(frag):
            if is_complete:
                got.append(tree)
        if k == len(parts) - 1:
            for t in got:
                c = p.collapse(t)
                complete.add(snap(c))
        cont.append(p.can_continue())
    return frozenset(complete), tuple(cont)


def work(item):
    from fandango.language.grammar.parser.iterative_parser import IterativeParser

    g, alphabet, maxlen = item
    fan = g.fan()
    feats = families.features(g)
    res = {"fan": fan, "viol": [], "words": 0, "schedules": 0, "members": 0, "cc_false": 0, "outcomes": set(), "skipped": 0}
    try:
        spec = build(fan)
    except Exception as e:
        res["spec_error"] = repr(e)
        return res
    rules = spec.grammar.rules
    counter = AdmissionCounter(200_000)
    shared, shared_inc = IterativeParser(rules), IterativeParser(rules)
    with counter:
        for w in words(alphabet, maxlen, binary=g.binary):
            if len(w) == 0:
                continue
            res["words"] += 1
            is_member = WordMatcher(g, w).member()
            res["members"] += is_member
            base = {"grammar": fan, "word": repr(w), "feats": feats}
            try:
                with time_limit(30):
                    counter.reset()
                    one, _ = run_fragments(IterativeParser, rules, "<start>", (w,), counter)
            except (Budget, Timeout):
                res["skipped"] += 1
                continue
            except Exception as e:
                res["viol"].append(dict(base, kind="oneshot_raises", error=f"{type(e).__name__}: {e}"[:200], sig="oneshot_raises"))
                continue
            if bool(one) != is_member:
                needs_empty = is_member and not WordMatcher(g, w, preferred_rx=True, nonempty_rx=True).member()
                pref = WordMatcher(g, w, preferred_rx=True).member()
                if is_member and not pref:
                    pass  # outside the completeness class (regex split ambiguity): not judged
                elif is_member and needs_empty:
                    pass  # C05 known finding (empty regex match), not a fragmentation issue
                else:
                    res["viol"].append(dict(base, kind="oneshot_vs_reference", ref_member=is_member, trees=len(one), sig="oneshot_vs_reference"))
            viable_cache: dict = {}
            # prefix mode (ParsingMode.INCOMPLETE, what protocol mode uses while a message is still arriving): the COMPLETE trees
            # reported after the last fragment must be those of the one-shot request in the same mode
            try:
                with time_limit(30):
                    counter.reset()
                    one_inc, _ = run_fragments(IterativeParser, rules, "<start>", (w,), counter, mode=ParsingMode.INCOMPLETE)
            except Exception:
                one_inc = None
            if one_inc is not None and len(w) <= 5:   # (prefix mode doubles the schedule count: bounded to words of <= 5 symbols in both tiers)
                for parts in compositions(w):
                    if len(parts) == 1:
                        continue
                    res["schedules"] += 1
                    try:
                        with time_limit(30):
                            counter.reset()
                            got_inc, _ = run_fragments(IterativeParser, rules, "<start>", parts, counter, mode=ParsingMode.INCOMPLETE, parser=shared_inc)
                    except (Budget, Timeout):
                        res["skipped"] += 1
                        continue
                    except Exception as e:
                        res["viol"].append(dict(base, kind="fragmented_raises", mode="prefix", fragments=repr(parts), error=f"{type(e).__name__}: {e}"[:200],
                                                sig=f"fragmented_raises:prefix:{type(e).__name__}"))
                        continue
                    if got_inc != one_inc:
                        # the same model of the recorded defect as in complete mode: all extra trees are valid derivations that use a regex
                        # split other than the one re.match prefers (which a one-shot scan never explores)
                        resplit = False
                        if got_inc > one_inc and not g.binary:
                            tc_any, tc_pref = TreeChecker(g), TreeChecker(g, preferred_word=w)
                            resplit = all(tc_any.ok(t, "<start>") is None and snap_text(t) == w and tc_pref.ok(t, "<start>") is not None
                                          for t in got_inc - one_inc)
                        res["viol"].append(dict(base, kind="fragmentation_changes_result", mode="prefix", fragments=repr(parts), oneshot_trees=len(one_inc),
                                                fragmented_trees=len(got_inc), extras_are_nonpreferred_regex_splits=resplit,
                                                sig="fragmentation_changes_result:prefix:" + ("lost" if not got_inc >= one_inc else "gained") + f":resplit={resplit}"))
            for parts in compositions(w):
                res["schedules"] += 1
                try:
                    with time_limit(30):
                        counter.reset()
                        # one long-lived parser object serves every schedule of every word of this grammar (new_parse() per request)
                        got, cont = run_fragments(IterativeParser, rules, "<start>", parts, counter, parser=shared)
                except (Budget, Timeout):
                    res["skipped"] += 1
                    continue
                except Exception as e:
                    res["viol"].append(dict(base, kind="fragmented_raises", fragments=repr(parts), error=f"{type(e).__name__}: {e}"[:200],
                                            sig=f"fragmented_raises:{type(e).__name__}"))
                    continue
                res["outcomes"].add((len(got), cont))
                if got != one:
                    # are all differences extra trees that are valid derivations using a regex split
                    # other than the one re.match prefers (which the one-shot scan never explores)?
                    resplit = False
                    if got > one and not g.binary:
                        tc_any, tc_pref = TreeChecker(g), TreeChecker(g, preferred_word=w)
                        resplit = all(tc_any.ok(t, "<start>") is None and snap_text(t) == w and tc_pref.ok(t, "<start>") is not None
                                      for t in got - one)
                    res["viol"].append(dict(base, kind="fragmentation_changes_result", fragments=repr(parts),
                                            oneshot_trees=len(one), fragmented_trees=len(got), extras_are_nonpreferred_regex_splits=resplit,
                                            sig="fragmentation_changes_result:" + ("lost" if not got >= one else "gained") + f":resplit={resplit}"))
                # can_continue oracle
                pos = 0
                for frag, cc in zip(parts, cont):
                    pos += len(frag)
                    if not cc:
                        res["cc_false"] += 1
                        prefix = w[:pos]
                        if prefix not in viable_cache:
                            ext = False
                            for c in alphabet:
                                nxt = prefix + (bytes([c]) if g.binary else c)
                                if viable(g, nxt):
                                    ext = True
                                    break
                            viable_cache[prefix] = ext
                        if viable_cache[prefix]:
                            # is there an extension within the narrower class (regex leaves = preferred match)?
                            in_pref = False
                            for u in words(alphabet, 3, binary=g.binary):
                                if len(u) and WordMatcher(g, prefix + u, preferred_rx=True).member():
                                    in_pref = True
                                    break
                            res["viol"].append(dict(base, kind="cannot_continue_but_extension_exists", fragments=repr(parts),
                                                    consumed=repr(prefix), extension_in_preferred_language=in_pref,
                                                    sig=f"cannot_continue_but_extension_exists:pref={in_pref}"))
                            break
    res["outcomes"] = len(res["outcomes"])
    return res


def run(ctx: Ctx) -> None:
    items = rotate(family(ctx.tier), ctx.seed)
    ctx.log(f"{len(items)} grammars")
    results = pmap_tagged(work, items)
    agg = {"grammars": 0, "words": 0, "schedules": 0, "members": 0, "cc_false": 0, "skipped": 0, "spec_errors": 0}
    outcomes = 0
    samples = []
    for r in results:
        if "spec_error" in r:
            agg["spec_errors"] += 1
            continue
        agg["grammars"] += 1
        for k in ("words", "schedules", "members", "cc_false", "skipped"):
            agg[k] += r[k]
        outcomes += r["outcomes"]
        for v in r["viol"]:
            ctx.violation(v)
        if len(samples) < 5:
            samples.append({"grammar": r["fan"], "words": r["words"], "schedules": r["schedules"]})
    ctx.coverage.update(
        states=agg["schedules"], transitions=agg["schedules"] * 2, traces_validated_against_impl=agg["schedules"],
        samples=samples, exhaustive=agg["skipped"] == 0, distinct_outcomes=outcomes, **agg,
        rule="schedule = composition of a word into consecutive non-empty fragments (all 2^(n-1) per word); every word over the alphabet "
             "up to the length bound, members and non-members; outcome = (number of complete trees, can_continue answers)",
    )
    if agg["skipped"]:
        ctx.cap(f"{agg['skipped']} schedules skipped (admission/time budget)")
    ctx.assumptions += ["RefGrammar viable-prefix matcher (regex partial matching via the `regex` module) is trusted for the can_continue oracle",
                        ]
