"""C04 — parsing is sound (bounded-exhaustive sweep: all grammars of the family x all words)."""
from mc.common import Ctx
from mc.parser_sweep import sweep

LEVEL = "model_checking"


def run(ctx: Ctx) -> None:
    agg = sweep(ctx, {"C04"})
    from mc import computed_sweep
    comp = computed_sweep.sweep(ctx, {"C04"})
    from mc.checks import c04_api
    api = c04_api.run_api(ctx)
    ctx.coverage.update(
        computed_repetition_sweep=comp,
        states=agg["words"] + comp["words"] + api["states"],
        transitions=agg["trees"] + agg["words"] + api["transitions"],
        traces_validated_against_impl=agg["words"] + api["states"],
        samples=agg["samples"] + api["samples"],
        exhaustive=agg["skipped_words"] == 0 and comp["skipped_words"] == 0,
        grammars=agg["grammars"], words=agg["words"], members=agg["members"],
        nonmember_words=agg["nonmember_words"], trees_checked=agg["trees"],
        ambiguous_words=agg["ambiguous_words"], forest_caps=agg["forest_caps"],
        skipped_words_after_budget_hits=agg["skipped_words"], spec_errors=agg["spec_errors"],
        parse_errors=agg["errors"], api=api["summary"],
        rule="state = (grammar, word) pair of the family; transition = one parse request / one yielded tree "
             "compared with the RefGrammar verdict (derivation check, exact serialisation, no helper symbols, "
             "no tree for a non-member)",
    )
    ctx.assumptions += [
        "RefGrammar (set-valued fixed-point matcher, Python re for regex leaves) is the trusted oracle",
        "grammar family: operator depth <= 2 over atoms 'a','ab','b',r'a*',r'[ab]' plus recursion templates, "
        "inner start symbol, and byte-sized binary atoms (bytes, bits, regex, text); words over {a,b,c} / 4-5 byte values",
    ]
    if agg["skipped_words"]:
        ctx.cap(f"{agg['skipped_words']} words skipped on grammars whose parse exceeded the admission budget twice (see C06)")
