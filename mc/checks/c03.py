"""C03 — a tree that satisfies all constraints is accepted, whatever (h, r).

Finite configuration space walked completely: h hard constraints x r computed
repetitions x 3 declaration orders.  For each configuration a real spec is built, a tree
that satisfies everything (confirmed independently) is handed to the real
Evaluator.evaluate_individual, which must yield it on first sight.  For h + r <= 8 the
public Fandango.fuzz(desired_solutions=1, initial_population=[satisfying word]) must return a solution.
"""
from __future__ import annotations

from mc.common import Ctx, pmap, tag, pmap_tagged
from mc.fd import build, snap

LEVEL = "model_checking"


def spec_text(h: int, r: int, order: int, n: str = "2") -> str:
    wheres = [f"where len(str(<start>)) >= 0 and {i} >= 0" for i in range(h)]
    reps = "".join(f" <i{k}>" + "{int(<n>)}" for k in range(r))
    rules = [f"<start> ::= <n>{reps}", f'<n> ::= "{n}"'] + [f'<i{k}> ::= "x"' for k in range(r)]
    if order == 0:  # hard constraints first
        lines = wheres + rules
    elif order == 1:  # grammar (repetitions) first
        lines = rules + wheres
    else:  # interleaved
        lines = []
        a, b = list(rules), list(wheres)
        while a or b:
            if a:
                lines.append(a.pop(0))
            if b:
                lines.append(b.pop(0))
    return "\n".join(lines) + "\n"


def independent_ok(s: tuple, r: int) -> bool:
    """Independent confirmation that the tree satisfies every constraint: n == 2 and every
    <ik> occurs exactly int(n) times; the where clauses are tautologies."""
    kids = s[2]
    if not kids or kids[0][1] != "<n>":
        return False
    n = int(kids[0][2][0][1])
    names = [k[1] for k in kids[1:]]
    return all(names.count(f"<i{k}>") == n for k in range(r)) and len(names) == n * r


def work(item):
    from fandango.evolution.evaluation import Evaluator
    from fandango.constraints.repetition_bounds import RepetitionBoundsConstraint
    from fandango.constraints.soft import SoftValue

    h, r, order, api = item[:4]
    n = item[4] if len(item) > 4 else "2"   # "0": every computed repetition legitimately has zero iterations
    text = spec_text(h, r, order, n)
    spec = build(text)
    cons = spec.constraints
    n_rep = sum(isinstance(c, RepetitionBoundsConstraint) for c in cons)
    n_hard = len(cons) - n_rep
    if (n_hard, n_rep) != (h, r):
        return {"internal": f"spec has ({n_hard},{n_rep}) constraints, wanted ({h},{r})", "case": item}
    word = n + "x" * int(n) * r
    tree = spec.grammar.parse(word)
    if tree is None:
        return {"internal": f"satisfying word {word!r} does not parse", "case": item}
    if not independent_ok(snap(tree), r):
        return {"internal": "witness tree not confirmed by the independent check", "case": item}
    ev = Evaluator(spec.grammar, cons, 1.0, 5, 1.0)
    gen = ev.evaluate_individual(tree)
    yielded = []
    try:
        while True:
            yielded.append(next(gen))
    except StopIteration as st:
        fitness = st.value[0]
    out = {"h": h, "r": r, "order": order, "fitness": repr(fitness), "yielded": len(yielded), "viol": []}
    if len(yielded) != 1 or yielded[0] is not tree:
        out["viol"].append({"kind": "satisfying_tree_not_accepted", "h": h, "r": r, "order": order, "n": n, "fitness": repr(fitness),
                            "spec": text if h + r <= 6 else f"spec_text({h},{r},{order},{n!r})", "sig": f"not_accepted:n={n}:fitness={fitness!r}"})
    if api:
        import random
        spec2 = build(text)
        random.seed(1)
        try:
            # the satisfying word is part of the initial population: it is evaluated, so it must be reported
            sols = spec2.fuzz(desired_solutions=1, max_generations=1, population_size=2, random_seed=1, initial_population=[word])
        except Exception as e:
            sols = []
            out["api_error"] = repr(e)
        out["api"] = len(sols)
        if len(sols) < 1:
            out["viol"].append({"kind": "fuzz_reports_no_solution", "h": h, "r": r, "order": order, "spec": text,
                                "sig": "fuzz_reports_no_solution"})
    return out


def work_places(item):
    """one comparison constraint that matches m places of the witness (its fitness is a mean over m values), next to h
    further hard constraints"""
    from fandango.evolution.evaluation import Evaluator

    m, h, api = item
    text = f"<start> ::= <digit>{{{m}}}\n<digit> ::= \"1\" | \"0\"\nwhere int(<digit>) >= 1\n" + "".join(f"where len(str(<start>)) >= 0 and {i} >= 0\n" for i in range(h))
    spec = build(text)
    word = "1" * m
    tree = spec.grammar.parse(word)
    if tree is None or len(spec.constraints) != h + 1:
        return {"internal": f"places spec m={m} h={h} not as intended", "case": item}
    ev = Evaluator(spec.grammar, spec.constraints, 1.0, 5, 1.0)
    gen = ev.evaluate_individual(tree)
    yielded = []
    try:
        while True:
            yielded.append(next(gen))
    except StopIteration as st:
        fitness = st.value[0]
    out = {"h": h, "r": 0, "order": 0, "fitness": repr(fitness), "yielded": len(yielded), "viol": []}
    if len(yielded) != 1 or yielded[0] is not tree:
        out["viol"].append({"kind": "satisfying_tree_not_accepted", "h": h, "r": 0, "places": m, "fitness": repr(fitness), "spec": text if m <= 8 else f"places spec m={m} h={h}",
                            "sig": f"not_accepted:places:fitness={fitness!r}"})
    if api:
        spec2 = build(text)
        try:
            sols = spec2.fuzz(desired_solutions=1, max_generations=1, population_size=2, random_seed=1, initial_population=[word])
        except Exception as e:
            sols = []
            out["api_error"] = repr(e)
        out["api"] = len(sols)
        if len(sols) < 1:
            out["viol"].append({"kind": "fuzz_reports_no_solution", "h": h, "r": 0, "places": m, "spec": text, "sig": "fuzz_reports_no_solution:places"})
    return out


def forms() -> list:
    """(name, spec text, satisfying word, lazy): constraint FORMS whose evaluation could lose a satisfied part - quantifiers over m matches
    of which only the LAST / FIRST satisfies, connectives whose first operand fails, in eager and in lazy compilation"""
    out = []
    G = '<start> ::= <d>{M} ";" <e>\n<d> ::= "0" | "1"\n<e> ::= "0" | "1"\n'
    for m in (1, 2, 3, 5, 8):
        g = G.replace("{M}", "{%d}" % m)
        last = "0" * (m - 1) + "1" + ";1"
        first = "1" + "0" * (m - 1) + ";1"
        for lazy in (False, True):
            out.append((f"any_identifier_last_of_{m}", g + "where any(int(x) >= 1 for x in *<d>)\n", last, lazy))
            out.append((f"any_identifier_first_of_{m}", g + "where any(int(x) >= 1 for x in *<d>)\n", first, lazy))
            out.append((f"any_nonterminal_last_of_{m}", g + "where any(int(<q>) >= 1 for <q> in *<d>)\n", last, lazy))
            out.append((f"exists_last_of_{m}", g + "where exists <q> in <d>: int(<q>) >= 1\n", last, lazy))
            out.append((f"all_of_{m}", g + "where all(int(x) <= 1 for x in *<d>)\n", last, lazy))
            out.append((f"forall_of_{m}", g + "where forall <q> in <d>: int(<q>) <= 1\n", last, lazy))
            out.append((f"or_second_holds_{m}", g + "where int(<e>) > 5 or int(<e>) == 1\n", last, lazy))
            out.append((f"or_first_holds_{m}", g + "where int(<e>) == 1 or int(<e>) > 5\n", last, lazy))
            out.append((f"and_both_hold_{m}", g + "where int(<e>) == 1 and int(<e>) < 5\n", last, lazy))
            out.append((f"or_of_quantifiers_{m}", g + "where any(int(x) > 5 for x in *<d>) or any(int(x) >= 1 for x in *<d>)\n", last, lazy))
            out.append((f"nested_any_{m}", g + "where any(any(int(y) >= int(x) + 1 for y in *<d>) for x in *<d>)\n", "0" * max(m - 1, 1) + "1;1" if m > 1 else None, lazy))
    return [f for f in out if f[2] is not None]


def work_form(item):
    from fandango.evolution.evaluation import Evaluator
    name, text, word, lazy = item
    out = {"h": 1, "r": 0, "order": 0, "fitness": "?", "yielded": 0, "viol": []}
    try:
        spec = build(text, lazy=lazy)
    except Exception as e:
        return {"internal": f"form {name} rejected: {e!r}", "case": item}
    tree = spec.grammar.parse(word)
    if tree is None:
        if name.startswith("nested_any") :
            return out
        return {"internal": f"form {name}: witness {word!r} does not parse", "case": item}
    ev = Evaluator(spec.grammar, spec.constraints, 1.0, 5, 1.0)
    gen = ev.evaluate_individual(tree)
    yielded = []
    try:
        while True:
            yielded.append(next(gen))
    except StopIteration as st:
        fitness = st.value[0]
    out["fitness"] = repr(fitness)
    out["yielded"] = len(yielded)
    if len(yielded) != 1:
        out["viol"].append({"kind": "satisfying_tree_not_accepted", "form": name, "lazy": lazy, "fitness": repr(fitness), "spec": text, "word": word,
                            "sig": f"not_accepted:form:{name.rsplit('_', 1)[0]}:lazy={lazy}"})
    got = [str(t) for t in spec.parse(word)]
    if got != [word]:
        out["viol"].append({"kind": "api_parse_rejects_satisfying_word", "form": name, "lazy": lazy, "spec": text, "word": word, "sig": f"parse_rejects:form:{name.rsplit('_', 1)[0]}:lazy={lazy}"})
    return out


def work_history(item):
    """the same question asked of ONE spec object after an earlier search with extra constraints: the witness satisfies
    every constraint of the spec, so the second search (which gets it in its initial population) must report it"""
    h, r = item
    text = spec_text(h, r, 0)
    word = "2" + "x" * 2 * r
    spec = build(text)
    out = {"h": h, "r": r, "order": 0, "fitness": "history", "yielded": 0, "viol": []}
    try:
        spec.fuzz(desired_solutions=1, max_generations=1, population_size=2, random_seed=1, extra_constraints=['str(<n>) == "9"'])
    except Exception as e:
        out["first_search"] = type(e).__name__
    try:
        sols = spec.fuzz(desired_solutions=1, max_generations=1, population_size=2, random_seed=1, initial_population=[word])
    except Exception as e:
        sols = []
        out["api_error"] = repr(e)
    out["api"] = len(sols)
    if len(sols) < 1:
        out["viol"].append({"kind": "fuzz_reports_no_solution", "h": h, "r": r, "after": "an earlier search on the same object with extra_constraints", "spec": text,
                            "sig": "fuzz_reports_no_solution:after_extra_constraints"})
    return out


def run(ctx: Ctx) -> None:
    H = R = 16 if ctx.quick else 40
    items = []
    for h in range(H + 1):
        for r in range(R + 1):
            if h + r == 0:
                continue
            for order in range(3):
                items.append((h, r, order, (h + r <= (8 if ctx.quick else 12)) and order == 0))
            if r >= 1 and h <= 6 and r <= 6:
                items.append((h, r, 0, h + r <= 4, "0"))
    results = pmap_tagged(work, items, chunk=4)
    M = 32 if ctx.quick else 80
    places = [(m, h, m <= 16 and h == 0) for m in range(1, M + 1) for h in (0, 1, 3)]
    results += pmap_tagged(work_places, places, chunk=4)
    hist = [(h, r) for h in range(0, 4) for r in range(0, 4) if h + r > 0]
    results += pmap_tagged(work_history, hist, chunk=2)
    fs = forms()
    results += pmap_tagged(work_form, fs, chunk=4)
    fitness_values = set()
    api_runs = 0
    for res in results:
        if "internal" in res:
            from mc.common import InternalError
            raise InternalError(str(res))
        fitness_values.add(res["fitness"])
        api_runs += "api" in res
        for v in res["viol"]:
            ctx.violation(v)
    ctx.coverage.update(
        states=len(items) + len(places) + len(hist), transitions=len(items) + len(places) + len(hist) + api_runs, traces_validated_against_impl=len(items) + len(places) + len(hist) + api_runs,
        match_places=M, history_configurations=len(hist), constraint_forms=len(fs),
        samples=[{"h": 1, "r": 5, "order": 0, "spec": spec_text(1, 5, 0)}], exhaustive=True,
        H=H, R=R, orders=3, api_runs=api_runs, distinct_fitness_values=sorted(fitness_values),
        rule="configuration = (h trivially-true where clauses, r computed repetitions, declaration order); the full lattice 0..H x 0..R x 3 is walked; "
             "each configuration evaluates one independently confirmed satisfying tree with the real Evaluator; plus: one comparison constraint matching m = 1..M places of the witness "
             "(next to 0, 1 or 3 further constraints); plus: the (h, r) question asked again of one spec object after an earlier search with extra constraints",
    )
