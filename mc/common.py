"""Shared runner plumbing: binding to /repo/src, evidence, findings, replays, sharding.

Every check is a module under mc/checks/ exposing  run(ctx: Ctx) -> None.
The runner (../check) creates the Ctx, calls run(), then ctx.finish().
"""

from __future__ import annotations

import json
import multiprocessing as mp
import os
import re
import sys
import time
import traceback
from typing import Any, Callable, Iterable, Optional

VERIF = os.path.dirname(os.path.dirname(os.path.abspath(__file__)))
REPO = os.environ.get("VERIF_REPO", "/repo")
SRC = os.environ.get("VERIF_SRC", os.path.join(REPO, "src"))
NPROC = int(os.environ.get("VERIF_NPROC", "16"))
# where evidence and replay files go; only tools/regress_seeds.sh points this elsewhere (scratch runs against patched worktrees)
OUT = os.environ.get("VERIF_OUT", VERIF)


class InternalError(Exception):
    """The harness (not Fandango) is inconsistent: never a property verdict."""


def bind_fandango() -> Any:
    """Import fandango from the working tree (never the site-packages copy)."""
    if SRC not in sys.path[:1]:
        sys.path.insert(0, SRC)
    os.environ.pop("FANDANGO_RAISE_ALL_EXCEPTIONS", None)
    import logging

    import fandango  # noqa

    f = os.path.realpath(fandango.__file__)
    if not f.startswith(os.path.realpath(SRC) + os.sep):
        raise InternalError(f"fandango imported from {f}, expected under {SRC}")
    from fandango.logger import LOGGER

    LOGGER.setLevel(logging.CRITICAL)
    import warnings

    warnings.filterwarnings("ignore")
    # print_exception() writes evaluation errors of the production path to sys.stderr: keep the
    # production path (no FANDANGO_RAISE_ALL_EXCEPTIONS) but send that chatter to /dev/null
    import types

    import fandango.logger as _L

    _L.sys = types.SimpleNamespace(stderr=open(os.devnull, "w"), stdout=sys.stdout)
    return fandango


# --------------------------------------------------------------------------- findings


def load_findings() -> list[dict]:
    p = os.path.join(VERIF, "known_findings.json")
    if not os.path.exists(p):
        return []
    with open(p) as fh:
        return json.load(fh)["findings"]


def _match_value(pat: Any, val: Any) -> bool:
    if isinstance(pat, dict) and "regex" in pat:
        return isinstance(val, str) and re.search(pat["regex"], val, re.S) is not None
    if isinstance(pat, dict) and "in" in pat:
        return val in pat["in"]
    if isinstance(pat, dict) and "contains" in pat:
        try:
            return pat["contains"] in val
        except TypeError:
            return False
    if isinstance(pat, dict) and "contains_all" in pat:
        try:
            return all(x in val for x in pat["contains_all"])
        except TypeError:
            return False
    return pat == val


def match_finding(pid: str, case: dict, findings: list[dict]) -> Optional[dict]:
    """A violation is a known finding iff an *open* entry of the same property matches
    every field of its `match` dict against the violating case."""
    for f in findings:
        if f.get("property") != pid or f.get("status") != "open":
            continue
        m = f.get("match", {})
        if m and all(k in case and _match_value(v, case[k]) for k, v in m.items()):
            return f
    return None


# --------------------------------------------------------------------------- context


class Ctx:
    def __init__(self, pid: str, tier: str, seed: int, level: str):
        self.pid = pid
        self.tier = tier
        self.seed = seed
        self.level = level
        self.t0 = time.time()
        self.findings = load_findings()
        self.violations: list[dict] = []  # unlisted
        self.known: dict[str, list[dict]] = {}
        self.coverage: dict[str, Any] = {}
        self.assumptions: list[str] = []
        self.caps: list[str] = []
        self.notes: list[str] = []

    @property
    def quick(self) -> bool:
        return self.tier == "quick"

    def log(self, msg: str) -> None:
        print(f"[{self.pid} {time.time() - self.t0:6.1f}s] {msg}", flush=True)

    def violation(self, case: dict) -> None:
        """Record one violating case (a JSON-serialisable dict with at least `kind`)."""
        f = match_finding(self.pid, case, self.findings)
        if f is not None:
            self.known.setdefault(f["id"], []).append(case)
        else:
            self.violations.append(case)

    def cap(self, msg: str) -> None:
        self.caps.append(msg)
        self.log("CAP " + msg)

    def write_replay(self, case: dict, idx: int) -> str:
        d = os.path.join(OUT, "replays")
        os.makedirs(d, exist_ok=True)
        p = os.path.join(d, f"{self.pid}_{idx:03d}.json")
        with open(p, "w") as fh:
            json.dump({"property": self.pid, "case": case}, fh, indent=1, default=repr)
        return p

    def finish(self) -> int:
        wall = time.time() - self.t0
        cov = dict(self.coverage)
        if self.caps:
            cov["caps_hit"] = self.caps
            cov["exhaustive"] = False
        if self.notes:
            cov["notes"] = self.notes
        cov["known_findings_reproduced"] = {k: len(v) for k, v in self.known.items()}
        ev = {
            "property_id": self.pid,
            "tier": self.tier,
            "seed": self.seed,
            "level": self.level,
            "coverage": cov,
            "assumptions": self.assumptions,
            "wall_s": round(wall, 2),
            "violations": len(self.violations),
        }
        os.makedirs(os.path.join(OUT, "evidence"), exist_ok=True)
        with open(os.path.join(OUT, "evidence", f"{self.pid}.json"), "w") as fh:
            json.dump(ev, fh, indent=1, default=repr)
        for fid, cases in sorted(self.known.items()):
            f = next(x for x in self.findings if x["id"] == fid)
            print(
                f"KNOWN-FINDING: property={self.pid} {fid}: {f['title']} "
                f"({len(cases)} case(s) reproduced, e.g. {json.dumps(cases[0], default=repr)[:300]})"
            )
        import glob
        for old in glob.glob(os.path.join(OUT, "replays", f"{self.pid}_*.json")):
            os.remove(old)
        hist: dict = {}
        for v in self.violations:
            k = f"{v.get('kind')}|{v.get('sig')}"
            hist[k] = hist.get(k, 0) + 1
        for k, c in sorted(hist.items(), key=lambda kv: -kv[1])[:40]:
            print(f"   unlisted violations: {c:6d}  {k}")
        # one replay per distinct class first, keep output short
        self.violations.sort(key=lambda v: (str(v.get("kind")), str(v.get("sig"))))
        shown = 0
        seen_kinds: set = set()
        for i, v in enumerate(self.violations):
            key = (v.get("kind"), v.get("sig"))
            if key in seen_kinds:
                continue
            seen_kinds.add(key)
            if shown < 40:
                p = self.write_replay(v, shown)
                print(f"VIOLATION property={self.pid} replay={p}")
                print("   " + json.dumps(v, default=repr)[:600])
                shown += 1
        self.log(
            f"done: violations={len(self.violations)} known={sum(len(v) for v in self.known.values())} "
            f"wall={wall:.1f}s coverage={ {k: v for k, v in cov.items() if isinstance(v, (int, bool, float))} }"
        )
        return 1 if self.violations else 0


# --------------------------------------------------------------------------- sharding

_WORKER_FN: Optional[Callable] = None


def _call(args: tuple[int, Any]) -> tuple[int, Any]:
    idx, item = args
    assert _WORKER_FN is not None
    try:
        return idx, ("ok", _WORKER_FN(item))
    except InternalError:
        return idx, ("internal", traceback.format_exc())
    except BaseException:  # noqa
        return idx, ("internal", traceback.format_exc())


def pmap(fn: Callable[[Any], Any], items: Iterable[Any], nproc: int = NPROC, chunk: int = 1, fresh: bool = False) -> list[Any]:
    """Deterministic parallel map: work is sharded by index, results merged in index
    order. fn must be a module-level function (fork start method, fandango imported in
    the parent).  An exception inside fn is an internal error, never a verdict."""
    global _WORKER_FN
    items = list(items)
    _WORKER_FN = fn
    if (nproc <= 1 or len(items) <= 1) and not fresh:
        out = [_call((i, it)) for i, it in enumerate(items)]
    else:
        ctx = mp.get_context("fork")
        # fresh=True: every item runs in its own forked process (no state survives between items)
        with ctx.Pool(min(nproc, len(items)), maxtasksperchild=1 if fresh else None) as pool:
            out = list(pool.imap_unordered(_call, list(enumerate(items)), chunksize=chunk))
    out.sort(key=lambda x: x[0])
    res = []
    for idx, (tag, val) in out:
        if tag != "ok":
            raise InternalError(f"worker failed on item {idx}: {items[idx]!r}\n{val}")
        res.append(val)
    return res


def pmap_tagged(fn: Callable[[Any], Any], items: Iterable[Any], **kw: Any) -> list[Any]:
    """pmap, and every violation dict found in a result gets the (function, argument) needed to
    re-execute exactly that case (see replay_case)"""
    items = list(items)
    results = pmap(fn, items, **kw)

    def walk(x: Any, t: Any) -> None:
        if isinstance(x, dict):
            if "kind" in x and "sig" in x and "_replay" not in x:
                tag(x, fn.__module__, fn.__name__, t)
            for v in list(x.values()):
                if isinstance(v, (dict, list, tuple)):
                    walk(v, t)
        elif isinstance(x, (list, tuple)):
            for v in x:
                walk(v, t)

    for t, r in zip(items, results):
        walk(r, t)
    return results


def tag(case: dict, module: str, fn: str, arg: Any) -> dict:
    """attach what is needed to re-execute exactly this case without the explorer"""
    case["_replay"] = {"module": module, "fn": fn, "arg_repr": repr(arg)}
    return case


def replay_case(case: dict) -> dict:
    """Re-executes one stored case: calls the recorded worker function on the recorded argument
    and reports whether a violation of the same kind shows up again."""
    import importlib

    bind_fandango()
    rp = case.get("_replay")
    if not rp:
        return {"violates": False, "error": "case carries no replay information"}
    ns: dict = {}
    for m in ("mc.refgrammar", "mc.refconstraint"):
        ns.update(vars(importlib.import_module(m)))
    arg = eval(rp["arg_repr"], ns)
    mod = importlib.import_module(rp["module"])
    res = getattr(mod, rp["fn"])(arg)
    found = []

    def collect(x: Any) -> None:
        if isinstance(x, dict):
            if "kind" in x and "sig" in x:
                found.append(x)
            for v in x.values():
                collect(v)
        elif isinstance(x, (list, tuple)):
            for v in x:
                collect(v)

    collect(res)
    same = [v for v in found if v.get("kind") == case.get("kind")]
    return {"violates": bool(same), "violations_of_same_kind": len(same), "violations_total": len(found),
            "example": {k: v for k, v in (same[0] if same else {}).items() if k != "_replay"}}


def rotate(items: list, seed: int) -> list:
    """VERIF_SEED only rotates the order in which an enumerated space is visited."""
    if not items:
        return items
    k = seed % len(items)
    return items[k:] + items[:k]
