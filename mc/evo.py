"""Search-operator engines shared by C01 (derivations), C02 (emitted solutions satisfy the
constraints) and C16 (generator-defined fields):

  B. operator closure: explicit-state reachability over TREES whose transitions are the real
     mutate / crossover / repair operators under EVERY resolution of their random decisions;
  C. the real Fandango.fuzz loop under deviation bounding (all executions that differ from
     the default resolution of the random decisions in at most d decisions).

Every tree that shows up anywhere (population members, operator results, emissions) is
judged by reference models that share no object with the search.
"""
from __future__ import annotations

from typing import Any, Optional

from mc.common import Ctx, InternalError, pmap, tag, pmap_tagged
from mc.explore import Chooser, Horizon, dfs
from mc.fd import build, has_helper_symbols, reset_constraint_caches, snap
from mc.refconstraint import And, Atom, Child, Desc, Or, Quant, Sym, from_snapshot, holds, merge_whole, text
from mc.refgrammar import Alt, Bit, Lit, NT, Opt, Plus, RefGrammar, Rep, Rx, Seq, Star, TreeChecker, WordMatcher, snap_text
from mc.seams import max_repetitions, random_seam

D = Alt((Lit("1"), Lit("2"), Lit("3")))

GEN_PRELUDE = '''LOG = []
def const():
    LOG.append(("const", (), "12"))
    return "12"
def pick():
    import random
    v = random.choice(["1", "23"])
    LOG.append(("pick", (), v))
    return v
def dbl(w):
    v = str(w) * 2
    LOG.append(("dbl", [str(w)], v))
    return v
def cat(w, z):
    v = str(w) + str(z) + str(w)
    LOG.append(("cat", [str(w), str(z)], v))
    return v
def pair():
    import random
    v = random.choice(["12!", "31!"])
    LOG.append(("pair", (), v))
    return v
def flat():
    # the deprecated tuple form: the text is a word of <id>, the SHAPE (one leaf) is not a derivation of <id> ::= <d>+ "!"
    import random
    v = random.choice(["12!", "3!"])
    LOG.append(("flat", (), v))
    return ("<id>", [(v, [])])
'''


def catalog() -> dict:
    c = {}
    c["computed_rep"] = dict(
        ref=RefGrammar({"<start>": Seq((NT("<n>"), Rep(NT("<item>"), 0, None, expr="int(<n>)"))),
                        "<n>": Alt((Lit("1"), Lit("2"), Lit("3"))), "<item>": Alt((Lit("x"), Lit("y")))}),
        cons=[Atom('{0} != "y"', (Sym("<item>"),), cmp=True)],
        reps=[("<start>", "<item>", lambda kids: int(_text(kids[0])))],
    )
    c["computed_rep_group"] = dict(
        ref=RefGrammar({"<start>": Seq((NT("<n>"), Rep(Seq((NT("<a>"), NT("<b>"))), 0, None, expr="int(<n>)"))),
                        "<n>": Alt((Lit("1"), Lit("2"), Lit("3"))), "<a>": Alt((Lit("a"), Lit("A"))), "<b>": Lit("b")}),
        cons=[Atom('str({0}) != "A"', (Sym("<a>"),), cmp=True)],
        reps=[("<start>", "<a>", lambda kids: int(_text(kids[0]))), ("<start>", "<b>", lambda kids: int(_text(kids[0])))],
    )
    c["rep_and_tail"] = dict(
        ref=RefGrammar({"<start>": Seq((NT("<n>"), Rep(NT("<item>"), 0, None, expr="int(<n>)"), NT("<tail>"))),
                        "<n>": Alt((Lit("1"), Lit("2"), Lit("3"))), "<item>": Lit("i"), "<tail>": Alt((Lit("y"), Lit("z")))}),
        cons=[Atom('str({0}) == "y"', (Sym("<tail>"),), cmp=True)],
        reps=[("<start>", "<item>", lambda kids: int(_text(kids[0])))],
    )
    c["equality"] = dict(
        ref=RefGrammar({"<start>": Seq((NT("<l>"), Lit("="), NT("<r>"))), "<l>": Plus(NT("<d>")), "<r>": Plus(NT("<d>")), "<d>": Alt((Lit("1"), Lit("2")))}),
        cons=[Atom('{0} == {1}', (Sym("<l>"), Sym("<r>")), cmp=True), Atom('len(str({0})) < 3', (Sym("<l>"),), cmp=True)],
    )
    c["nested_rep"] = dict(
        ref=RefGrammar({"<start>": Star(Seq((Rep(NT("<x>"), 1, 2), Lit("-")))), "<x>": Alt((Lit("a"), Lit("b")))}),
        cons=[Atom('str({0}) == "a"', (Sym("<x>"),), cmp=True), Atom('len(str({0})) > 2', (Sym("<start>"),), cmp=True)],
    )
    c["recursion"] = dict(
        ref=RefGrammar({"<start>": NT("<e>"), "<e>": Alt((NT("<d>"), Seq((NT("<d>"), Lit("+"), NT("<e>"))))), "<d>": Alt((Lit("1"), Lit("2"), Lit("a")))}),
        cons=[Atom('int({0}) > 1', (Sym("<d>"),), cmp=True), Quant("any", "x", Sym("<e>"), Atom('len(str(x)) > 1', cmp=True))],
    )
    c["bits"] = dict(
        ref=RefGrammar({"<start>": Seq((NT("<flag>"), NT("<body>"))), "<flag>": Rep(NT("<bit>"), 8, 8), "<bit>": Alt((Bit(0), Bit(1))),
                        "<body>": Rep(Alt((Lit(b"\x01"), Lit(b"\xff"))), 1, 2)}, binary=True),
        cons=[Atom('len(bytes({0})) == 2', (Sym("<body>"),), cmp=True), Atom('{0}[0] == {0}[7]', (Sym("<flag>"),), cmp=True)],
    )
    c["regex_opt"] = dict(
        ref=RefGrammar({"<start>": Seq((NT("<k>"), Opt(NT("<v>")), Lit(";"))), "<k>": Rx("[ab]{1,2}"), "<v>": Seq((Lit("="), Rx("[01]")))}),
        cons=[Atom('str({0}) == "ab"', (Sym("<k>"),), cmp=True), Atom('{n0} == 1', lens=(Sym("<v>"),), cmp=True)],
    )
    c["generators"] = dict(
        ref=RefGrammar({"<start>": Seq((NT("<k>"), NT("<c>"), NT("<p>"), NT("<v>"), NT("<tail>"))),
                        "<k>": Alt((Lit("k"), Lit("j"))), "<c>": Plus(NT("<d>")), "<p>": Plus(NT("<d>")), "<v>": Plus(NT("<d>")),
                        "<w>": Alt((Lit("1"), Lit("2"))), "<tail>": Rep(NT("<d>"), 1, 2), "<d>": D},
                       generators={"<c>": "const()", "<p>": "pick()", "<v>": "dbl(<w>)"}, prelude=GEN_PRELUDE),
        cons=[Atom('str({0}) == "k"', (Sym("<k>"),), cmp=True), Atom('str({0}) != "3"', (Sym("<tail>"),), cmp=True),
              Atom('str({0}) != "11"', (Sym("<v>"),), cmp=True), Atom('str({0}) != "1"', (Sym("<p>"),), cmp=True)],
        gens={"<c>": ("const", lambda a: "12"), "<p>": ("pick", None), "<v>": ("dbl", lambda a: a["<w>"] * 2)},
    )
    c["generators2"] = dict(
        ref=RefGrammar({"<start>": Seq((NT("<k>"), NT("<u>"), NT("<tail>"))), "<k>": Alt((Lit("k"), Lit("j"))), "<u>": Plus(NT("<d>")),
                        "<w>": Alt((Lit("1"), Lit("2"))), "<z>": Alt((Lit("1"), Lit("3"))), "<tail>": Rep(NT("<d>"), 1, 2), "<d>": D},
                       generators={"<u>": "cat(<w>, <z>)"}, prelude=GEN_PRELUDE),
        cons=[Atom('str({0}) == "k"', (Sym("<k>"),), cmp=True)],
        extra_cons=['str(<w>) != "1"', 'str(<z>) != "1"'],   # on generator ARGUMENTS (kept in .sources): makes the operators edit them
        gens={"<u>": ("cat", lambda a: a["<w>"] + a["<z>"] + a["<w>"])},
    )
    c["generators_eq"] = dict(
        ref=RefGrammar({"<start>": Seq((NT("<c>"), Lit("-"), NT("<t>"), Lit("-"), NT("<p>"))), "<c>": Plus(NT("<d>")), "<t>": Plus(NT("<d>")),
                        "<p>": Plus(NT("<d>")), "<d>": D},
                       generators={"<c>": "const()", "<p>": "pick()"}, prelude=GEN_PRELUDE),
        cons=[Atom('str({0}) == str({1})', (Sym("<c>"), Sym("<t>")), cmp=True), Atom('{0} == {1}', (Sym("<p>"), Sym("<t>")), cmp=True)],
        gens={"<c>": ("const", lambda a: "12"), "<p>": ("pick", None)},
    )
    # an equality between two nodes of the SAME symbol, one of them inside generator output (the repair copies that node)
    c["generators_inner_eq"] = dict(
        ref=RefGrammar({"<start>": Seq((NT("<plain>"), Lit(";"), NT("<g>"))), "<plain>": NT("<item>"), "<g>": Seq((NT("<item>"), Lit("!"))),
                        "<item>": Rep(NT("<d>"), 2, 2), "<d>": D},
                       generators={"<g>": "pair()"}, prelude=GEN_PRELUDE),
        cons=[Atom('{0} == {1}', (Child(Sym("<plain>"), "<item>"), Child(Sym("<g>"), "<item>")), cmp=True),
              Atom('str({0}) != "12"', (Child(Sym("<g>"), "<item>"),), cmp=True)],
        gens={"<g>": ("pair", None)},
    )
    # a generator that returns a tree in tuple form whose shape is not a derivation (its text is): the result has to be re-read under the rule
    c["generators_tuple"] = dict(
        ref=RefGrammar({"<start>": Seq((NT("<k>"), NT("<id>"), NT("<tail>"))), "<k>": Alt((Lit("k"), Lit("j"))), "<id>": Seq((Plus(NT("<d>")), Lit("!"))),
                        "<tail>": Rep(NT("<d>"), 1, 2), "<d>": D},
                       generators={"<id>": "flat()"}, prelude=GEN_PRELUDE),
        cons=[Atom('str({0}) == "k"', (Sym("<k>"),), cmp=True), Atom('str({0}) != "3"', (Sym("<tail>"),), cmp=True)],
        gens={"<id>": ("flat", None)},
    )
    for name, e in c.items():
        e["name"] = name
        g: RefGrammar = e["ref"]
        e["fan"] = RefGrammar(g.rules, g.generators, g.prelude, tuple(text(f) for f in e["cons"]) + tuple(e.get("extra_cons", ())), g.binary).fan()
    return c


def _text(s: tuple) -> str:
    if s[0] == "T":
        return s[1] if isinstance(s[1], str) else ""
    return "".join(_text(k) for k in s[2])


_CAT: Optional[dict] = None


def cat() -> dict:
    global _CAT
    if _CAT is None:
        _CAT = catalog()
    return _CAT


# ----------------------------------------------------------------------------- oracles
def judge_derivation(e: dict, tree: Any) -> Optional[str]:
    s = snap(tree)
    h = has_helper_symbols(s)
    if h:
        return f"helper symbol {h}"
    why = TreeChecker(e["ref"]).ok(s, "<start>")
    if why:
        return why
    try:
        ser = snap_text(s)
    except ValueError as ex:
        return f"value undefined: {ex}"
    if e["ref"].binary and ser == "":
        ser = b""
    if not WordMatcher(e["ref"], ser).member():
        return f"serialisation {ser!r} is not a word of the language"
    return None


def judge_solution(e: dict, tree: Any) -> Optional[str]:
    """C02: every constraint holds on a tree REBUILT from a plain snapshot (no shared state);
    computed repetition counts are recounted."""
    s = snap(tree)
    t2 = from_snapshot(s)
    for f in e["cons"]:
        readings = [f]
        w = merge_whole(f)
        if w is not None and w is not f:
            readings.append(w)
        if not any(holds(r, t2) for r in readings):
            return f"constraint {text(f)!r} does not hold"
    for (parent, item, count_fn) in e.get("reps", []):
        for node in _nodes(s):
            if node[0] == "N" and node[1] == parent:
                try:
                    want = count_fn(node[2])
                except Exception as ex:
                    return f"repetition count expression raises {type(ex).__name__}"
                got = sum(1 for k in node[2] if k[0] == "N" and k[1] == item)
                if got != want:
                    return f"computed repetition: {got} x {item}, bound says {want}"
    return None


def _nodes(s: tuple):
    yield s
    if s[0] == "N":
        for k in s[2]:
            yield from _nodes(k)


def judge_generators(e: dict, tree: Any, log: list, all_violations: Optional[list] = None) -> Optional[str]:
    """C16: the text of every generator-owned node is a logged return value of its generator;
    for a generator with arguments it is the function applied to the argument values recorded
    in .sources; generator-owned children are marked read-only."""
    gens = e.get("gens")
    if not gens:
        return None
    returned = {}
    for (fname, args, val) in log:
        returned.setdefault(fname, set()).add(val)

    found: list = []

    def walk(t: Any) -> Optional[str]:
        r = walk1(t)
        return r

    def walk1(t: Any) -> Optional[str]:
        sym = t.symbol
        if sym.is_non_terminal and sym.name() in gens:
            fname, fn = gens[sym.name()]
            txt = str(t)
            if txt not in returned.get(fname, set()):
                return f"{sym.name()} has text {txt!r}, which generator {fname} never returned (returned: {sorted(returned.get(fname, set()))})"
            if fn is not None:
                args = {x.symbol.name(): str(x) for x in t.sources}
                try:
                    want = fn(args)
                except Exception:
                    want = None
                if (args or fname == "const") and want != txt:
                    return f"{sym.name()} has text {txt!r} but its recorded arguments {args} give {want!r}"
                if fname in ("dbl", "cat") and not args:
                    return f"{sym.name()} carries no recorded argument (sources empty)"
            return None  # (the read-only marking is the mechanism, not the property: it is not judged)
        first = None
        for c in t.children:
            r = walk1(c)
            if r:
                found.append(r)
                first = first or r
        return first

    r0 = walk(tree)
    if all_violations is not None:
        all_violations.extend(dict.fromkeys(([r0] if r0 else []) + found))
    return r0


def _is_partner_value(e: dict, tree: Any, why: str) -> bool:
    """the foreign text of the generator-owned field equals the current text of the symbol it is
    constrained to be equal to (what the equality repair copies in)"""
    import re
    m = re.match(r"^(<\w+>) has text '([^']*)'", why)
    if not m:
        return False
    others = {str(n) for n in tree.flatten() if n.symbol.is_non_terminal and n.symbol.name() == "<t>"}
    return m.group(2) in others


def _all_read_only(t: Any) -> bool:
    return bool(t.read_only) and all(_all_read_only(c) for c in t.children)


def get_log(spec: Any) -> list:
    g = spec.grammar._global_variables
    return list(g.get("LOG", []))


# ----------------------------------------------------------------------------- engine C: the loop
LOOP = dict(desired_solutions=2, max_generations=2, population_size=3, max_nodes=14)


def loop_run(task: tuple) -> dict:
    name, prefix, which, policy = task
    e = cat()[name]
    spec = build(e["fan"])
    ch = Chooser(prefix, max_points=6000, policy=policy)
    emitted: list = []
    out = {"name": name, "viol": [], "emitted": 0, "population": 0, "points": None, "choices": None, "horizon": False, "error": None}

    def cb(t: Any, i: int) -> None:
        from mc.checks.c10 import snapf
        emitted.append((t, snapf(t)))

    try:
        with random_seam(ch), max_repetitions(3):
            sols = spec.fuzz(solution_callback=cb, random_seed=0, **LOOP)
    except Horizon:
        out["horizon"] = True
        sols = []
    except Exception as ex:
        out["error"] = f"{type(ex).__name__}: {ex}"[:200]
        sols = []
    out["points"] = [n for n, _ in ch.points]
    out["choices"] = list(ch.choices)
    out["defaults"] = list(ch.defaults)
    out["policy"] = policy
    devs = [(i, c) for i, (c, d) in enumerate(zip(ch.choices, ch.defaults)) if c != d]
    base = {"spec": name, "policy": policy, "prefix": list(prefix), "deviations": devs[:8]}
    log = get_log(spec)
    pop = list(getattr(spec.fandango, "population", [])) if getattr(spec, "fandango", None) is not None else []
    out["emitted"] = len(emitted)
    out["population"] = len(pop)
    if "C01" in which:
        for label, trees in (("emitted", [t for t, _ in emitted]), ("population", pop)):
            for t in trees:
                why = judge_derivation(e, t)
                if why:
                    out["viol"].append(("C01", dict(base, kind="search_produced_non_derivation", where=label, why=why, tree=str(t)[:80],
                                                   sig=f"loop:{name}:{label}:{why[:40]}")))
                    break
    if "C02" in which:
        for t, _ in emitted:
            why = judge_solution(e, t)
            if why:
                out["viol"].append(("C02", dict(base, kind="emitted_solution_violates_constraint", why=why, tree=str(t)[:80],
                                               sig=f"loop:{name}:{why[:50]}")))
                break
    if "C16" in which and e.get("gens"):
        for label, trees in (("emitted", [t for t, _ in emitted]), ("population", pop)):
            for t in trees:
                why = judge_generators(e, t, log)
                if why:
                    out["viol"].append(("C16", dict(base, kind="generated_field_not_generator_output", where=label, why=why, tree=str(t)[:80],
                                                   field_taken_from_equality_partner=_is_partner_value(e, t, why),
                                                   sig=f"loop:{name}:{why[:50]}")))
                    break
    if "C10" in which:
        from mc.checks.c10 import snapf
        from mc.checks.c10 import check_tree
        for t, before in emitted:
            if snapf(t) != before:
                out["viol"].append(("C10", dict(base, kind="emitted_solution_modified_later", tree=str(t)[:80], sig=f"loop:{name}:emitted_solution_modified_later")))
                break
            why = check_tree(t, "emitted")
            if why:
                out["viol"].append(("C10", dict(base, kind="emitted_solution_bookkeeping_inconsistent", why=why[:200], tree=str(t)[:80], sig=f"loop:{name}:emitted:{why.split(':')[1][:40] if ':' in why else why[:40]}")))
                break
        for t in pop:
            why = check_tree(t, "population")
            if why:
                out["viol"].append(("C10", dict(base, kind="population_bookkeeping_inconsistent", why=why[:200], tree=str(t)[:80], sig=f"loop:{name}:population:{why.split(':')[1][:40] if ':' in why else why[:40]}")))
                break
    return out


def _trim(ch: list) -> list:
    last = max([i for i, c in enumerate(ch) if c] + [-1])
    return list(ch[: last + 1])


def loop_explore(ctx: Ctx, names: list, which: set, bound: int, cap: int) -> dict:
    """all executions of the loop with <= bound deviations from the default resolution"""
    agg = {"executions": 0, "horizon": 0, "errors": {}, "emitted": 0, "population": 0, "capped": 0, "distinct_outcomes": set(), "choice_points_default": {}}
    frontier = [(n, [], which, pol) for n in names for pol in ("zero", "rot")]
    for level in range(bound + 1):
        results = pmap_tagged(loop_run, frontier, chunk=2)
        nxt = []
        deviating: list = []
        for task, r in zip(frontier, results):
            agg["executions"] += 1
            agg["horizon"] += r["horizon"]
            if r["error"]:
                k = r["error"].split(":")[0]
                agg["errors"][k] = agg["errors"].get(k, 0) + 1
            agg["emitted"] += r["emitted"]
            agg["population"] += r["population"]
            agg["distinct_outcomes"].add((r["name"], r["emitted"], r["population"], r["error"] and r["error"][:30]))
            if level == 0:
                agg["choice_points_default"][r["name"] + "/" + r["policy"]] = len(r["points"])
            for pid, case in r["viol"]:
                if pid == ctx.pid:
                    ctx.violation(tag(case, "mc.evo", "loop_run", task))
            if level < bound:
                deviating.append((len(task[1]), r))
        # deviations of this level's executions = next level's prefixes.  They are COUNTED first and only the ones that will
        # be run are materialised (a level can have tens of millions of them; building them all exhausted the memory)
        def candidates(group):
            for pre_len, r in group:
                pts, dfl = r["points"], r["defaults"]
                for i in range(pre_len, len(pts)):
                    for alt in range(pts[i]):
                        if alt != dfl[i]:
                            yield r, i, alt

        def count(group):
            return sum(pts_i - 1 for pre_len, r in group for pts_i in r["points"][pre_len:] if pts_i > 1)

        def pick(group, positions):
            """materialise the candidates at the given (sorted) positions of the group's enumeration order"""
            out, want, k = [], iter(positions), 0
            nxt_pos = next(want, None)
            for r, i, alt in candidates(group):
                if nxt_pos is None:
                    break
                if k == nxt_pos:
                    out.append((r["name"], r["choices"][:i] + [alt], which, r["policy"]))
                    nxt_pos = next(want, None)
                k += 1
            return out

        def spread_positions(n: int, k: int) -> list:
            if k <= 0:
                return []
            if n <= k:
                return list(range(n))
            step = n / k
            return sorted({int(j * step) for j in range(k)})

        rot = [d for d in deviating if d[1]["policy"] == "rot"]
        zero = [d for d in deviating if d[1]["policy"] != "rot"]
        n_rot, n_zero = count(rot), count(zero)
        total = n_rot + n_zero
        if total > cap:
            # keep a deterministic subset and say so: the varied base execution ("rot") first, then an
            # evenly spread subset of the deviations of the degenerate all-defaults execution
            k_rot = min(n_rot, max(cap * 2 // 3, cap - n_zero))
            pos_rot = spread_positions(n_rot, k_rot)
            pos_zero = spread_positions(n_zero, cap - len(pos_rot))
            agg["capped"] += total - len(pos_rot) - len(pos_zero)
        else:
            pos_rot, pos_zero = list(range(n_rot)), list(range(n_zero))
        nxt = pick(rot, pos_rot) + pick(zero, pos_zero)
        frontier = nxt
        if not frontier:
            break
    agg["distinct_outcomes"] = len(agg["distinct_outcomes"])
    return agg


# ----------------------------------------------------------------------------- engine B: operator closure
def state_key(t: Any) -> str:
    """identity of a tree as a STATE of the operator closure: structure plus what the operators read besides it
    (read-only marks, generator sources).  Two trees with equal structure but different marks have different futures."""
    flags = []

    def walk(n: Any) -> None:
        flags.append(bool(n.read_only))
        for c in n._children:
            walk(c)
        for c in n._sources:
            flags.append(("src", repr(snap(c))))

    walk(t)
    return repr((snap(t), tuple(flags)))


def _node_ids(t: Any) -> set:
    out = {id(t)}
    for c in t._children:
        out |= _node_ids(c)
    for c in t._sources:
        out |= _node_ids(c)
    return out


def closure_work(task: tuple) -> dict:
    """apply one operator to one tree (identified by the choice history that builds it) under
    every resolution; returns new trees as (builder history) + judgements"""
    name, builder, op, partner, which, cap = task
    e = cat()[name]
    spec = build(e["fan"])
    g = spec.grammar
    from fandango.evolution.crossover import SimpleSubtreeCrossover
    from fandango.evolution.evaluation import Evaluator
    from fandango.evolution.mutation import SimpleMutation
    from fandango.evolution.population import PopulationManager

    def materialise(b: tuple) -> Any:
        """b = ("fuzz", choices) | (op, choices, base_builder, partner_builder)"""
        if b[0] == "fuzz":
            ch = Chooser(b[1])
            with random_seam(ch), max_repetitions(3):
                return g.fuzz("<start>", 10)
        base = materialise(b[2])
        part = materialise(b[3]) if b[3] is not None else None
        ch = Chooser(b[1])
        r = apply(b[0], base, part, ch)
        if r is None:
            raise InternalError(f"builder {b!r} no longer produces a tree")
        return r

    def apply(op_: str, base: Any, part: Any, ch: Chooser) -> Any:
        reset_constraint_caches(spec)
        ev = Evaluator(g, spec.constraints, 1.0, 5, 1.0)
        with random_seam(ch), max_repetitions(3):
            if op_ == "mutate":
                gen = SimpleMutation().mutate(base, g, ev.evaluate_individual, max_nodes=14)
                try:
                    while True:
                        next(gen)
                except StopIteration as st:
                    return st.value
            if op_ == "repair":
                gen = ev.evaluate_individual(base)
                try:
                    while True:
                        next(gen)
                except StopIteration as st:
                    sugg = st.value[2]
                return PopulationManager(g, "<start>").fix_individual(base, sugg)[0]
            if op_ == "crossover":
                r = SimpleSubtreeCrossover().crossover(g, base, part)
                return None if r is None else r[0]
        raise InternalError(op_)

    base = materialise(builder)
    part = materialise(partner) if partner is not None else None
    from mc.checks.c10 import snapf
    base_before = snapf(base)
    part_before = snapf(part) if part is not None else None
    out = {"viol": [], "new": [], "runs": 0, "capped": False, "errors": 0}
    seen = set()

    def body(ch: Chooser) -> Any:
        try:
            return apply(op, base, part, ch)
        except (Horizon, InternalError):
            raise
        except Exception as ex:  # the loop logs operator errors and carries on (algorithm.py)
            out["errors"] += 1
            return None

    for choices, res, _ in dfs(body, bound=None, max_runs=cap):
        if choices is None:
            out["capped"] = True
            break
        out["runs"] += 1
        if res is None or (isinstance(res, tuple) and res and res[0] == "__horizon__"):
            continue
        basecase = {"spec": name, "op": op, "builder": repr(builder)[:300], "choices": choices[:40]}
        if "C10" in which:
            from mc.checks.c10 import check_tree
            if snapf(base) != base_before or (part is not None and snapf(part) != part_before):
                out["viol"].append(("C10", dict(basecase, kind="operator_modified_its_input", sig=f"closure:{op}:operator_modified_its_input")))
            # bookkeeping (sizes, hashes, parent links) of the inputs and of the result, and no node object shared between them
            for label, t in (("input", base), ("partner", part), ("result", res)):
                why = check_tree(t, label) if t is not None else None
                if why:
                    out["viol"].append(("C10", dict(basecase, kind="bookkeeping_inconsistent_after_operator", why=why[:200], sig=f"closure:{op}:{label}:{why.split(':')[1][:40] if ':' in why else why[:40]}")))
                    break
            shared = _node_ids(res) & (_node_ids(base) | (_node_ids(part) if part is not None else set()))
            if shared and res is not base and res is not part:
                out["viol"].append(("C10", dict(basecase, kind="result_shares_nodes_with_input", shared=len(shared), sig=f"closure:{op}:result_shares_nodes_with_input")))
        s = snap(res)
        sk = state_key(res)
        if sk in seen:
            continue
        seen.add(sk)
        if "C01" in which:
            why = judge_derivation(e, res)
            if why:
                out["viol"].append(("C01", dict(basecase, kind="operator_produced_non_derivation", why=why, tree=str(res)[:80], sig=f"closure:{name}:{op}:{why[:40]}")))
        if "C02" in which:
            # the acceptance gate: whatever a fresh evaluator yields for this tree is what the loop would emit
            reset_constraint_caches(spec)
            ev2 = Evaluator(g, spec.constraints, 1.0, 5, 1.0)
            accepted = []
            try:
                gen2 = ev2.evaluate_individual(res)
                while True:
                    accepted.append(next(gen2))
            except StopIteration:
                pass
            except Exception:
                accepted = []
            out["accepted"] = out.get("accepted", 0) + len(accepted)
            for t in accepted:
                why = judge_solution(e, t)
                if why:
                    out["viol"].append(("C02", dict(basecase, kind="evaluator_accepts_operator_result_violating_constraint", why=why, tree=str(t)[:80],
                                                   sig=f"closure:{name}:{op}:{why[:50]}")))
                    break
        if "C16" in which and e.get("gens"):
            mine: list = []
            judge_generators(e, res, get_log(spec), mine)
            # only the operator application that INTRODUCES foreign text is reported (a field that was
            # already foreign in an input of the operator is that earlier application's violation)
            inherited: list = []
            for x in (base, part):
                if x is not None:
                    judge_generators(e, x, get_log(spec), inherited)
            fresh = [w for w in mine if w not in inherited]
            why = fresh[0] if fresh else None
            if why:
                out["viol"].append(("C16", dict(basecase, kind="operator_broke_generated_field", why=why, tree=str(res)[:80],
                                               field_taken_from_equality_partner=_is_partner_value(e, res, why),
                                               sig=f"closure:{name}:{op}:{why[:50]}")))
        out["new"].append((sk, (op, choices, builder, partner)))
    return out


def closure_explore(ctx: Ctx, names: list, which: set, depth: int, frontier_cap: int, run_cap: int) -> dict:
    agg = {"trees": 0, "transitions": 0, "executions": 0, "capped_expansions": 0, "frontier_capped": 0, "depth": depth}
    for name in names:
        e = cat()[name]
        spec = build(e["fan"])
        # initial trees: every resolution of Grammar.fuzz with a small budget
        init = {}

        def body(ch: Chooser) -> Any:
            with random_seam(ch), max_repetitions(3):
                return spec.grammar.fuzz("<start>", 10)

        for choices, t, _ in dfs(body, bound=None, max_runs=400):
            if choices is None:
                agg["capped_expansions"] += 1
                break
            if isinstance(t, tuple):
                continue
            k = state_key(t)
            if k not in init:
                init[k] = ("fuzz", choices)
        seeds = list(init.items())[: frontier_cap]
        seen = dict(init)
        frontier = [b for _, b in seeds]
        partners = [b for _, b in seeds[:4]]
        for level in range(depth):
            tasks = []
            for b in frontier:
                tasks.append((name, b, "mutate", None, which, run_cap))
                tasks.append((name, b, "repair", None, which, run_cap))
                for p in partners:
                    tasks.append((name, b, "crossover", p, which, run_cap))
            results = pmap_tagged(closure_work, tasks, chunk=2)
            nxt = []
            for task_, r in zip(tasks, results):
                for _, case in r["viol"]:
                    tag(case, "mc.evo", "closure_work", task_)
            for r in results:
                agg["transitions"] += len(r["new"])
                agg["executions"] += r["runs"]
                agg["capped_expansions"] += r["capped"]
                for pid, case in r["viol"]:
                    if pid == ctx.pid:
                        ctx.violation(case)
                for k, b in r["new"]:
                    if k not in seen:
                        seen[k] = b
                        nxt.append(b)
            if len(nxt) > frontier_cap:
                agg["frontier_capped"] += len(nxt) - frontier_cap
                nxt = nxt[:frontier_cap]
            frontier = nxt
        agg["trees"] += len(seen)
    return agg
