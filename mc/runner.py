from __future__ import annotations

import argparse
import importlib
import json
import os
import sys
import traceback

from mc.common import Ctx, InternalError, bind_fandango

LEVELS = {}  # property -> evidence level; filled from the check modules


def main() -> int:
    ap = argparse.ArgumentParser()
    ap.add_argument("pid")
    ap.add_argument("--tier", default=os.environ.get("VERIF_TIER", "quick"), choices=["quick", "thorough"])
    ap.add_argument("--replay", default=None)
    args = ap.parse_args()
    seed = int(os.environ.get("VERIF_SEED", "0") or 0)
    pid = args.pid.upper()
    bind_fandango()  # every check runs against /repo/src, never the site-packages copy
    mod = importlib.import_module(f"mc.checks.{pid.lower()}")
    if args.replay:
        with open(args.replay) as fh:
            case = json.load(fh)["case"]
        from mc.common import replay_case
        res = mod.replay(case) if hasattr(mod, "replay") else replay_case(case)
        print(json.dumps(res, indent=1, default=repr))
        if res.get("violates"):
            print(f"VIOLATION property={pid} replay={args.replay}")
            return 1
        return 0
    ctx = Ctx(pid, args.tier, seed, getattr(mod, "LEVEL", "model_checking"))
    try:
        mod.run(ctx)
    except InternalError:
        traceback.print_exc()
        print(f"INTERNAL-ERROR in check {pid} (harness fault, not a property verdict)")
        return 2
    return ctx.finish()


if __name__ == "__main__":
    sys.exit(main())
