"""Child process of C17: one configuration, one environment variant; prints a JSON observation.
argv[1] = JSON {spec, seed, pop, word, heap, clock, imports}"""
import json
import sys

cfg = json.loads(sys.argv[1])

# --- environment seams, applied BEFORE fandango is imported
if cfg["heap"]:
    _garbage = [bytearray(1000 + 37 * i) for i in range(4000)]   # shifts every later allocation (id() values)
    _more = [object() for _ in range(50000)]
    del _more
if cfg["imports"]:
    import decimal, fractions, statistics, html.parser, xml.dom.minidom, sqlite3, csv  # noqa: E401,F401  unrelated modules, imported first
import time as _time

if cfg["clock"]:
    _real_time = _time.time
    _time.time = lambda: _real_time() + 1.0e6
    _real_mono = _time.monotonic
    _time.monotonic = lambda: _real_mono() + 1.0e6

sys.path.insert(0, "/verif")
from mc.common import bind_fandango  # noqa: E402

bind_fandango()
from mc.fd import build, snap  # noqa: E402

spec = build(cfg["spec"])
out = {"fuzz": None, "parse": None, "error": None}
try:
    sols = []
    res = spec.fuzz(desired_solutions=cfg.get("n", 5), max_generations=cfg.get("gens", 6), population_size=cfg["pop"], random_seed=cfg["seed"],
                    solution_callback=lambda t, i: sols.append(repr(bytes(t)) if t.should_be_serialized_to_bytes() else str(t)))
    out["fuzz"] = sols
    out["returned"] = [repr(bytes(t)) if t.should_be_serialized_to_bytes() else str(t) for t in res]
    if cfg.get("word") is not None:
        w = cfg["word"]
        if isinstance(w, list):
            w = bytes(w)
        out["parse"] = [repr(snap(t)) for t in spec.parse(w)][:64]
        out["first_tree"] = repr(snap(spec.grammar.parse(w))) if spec.grammar.parse(w) is not None else None
except Exception as e:
    out["error"] = type(e).__name__ + ": " + str(e)[:200]
print("C17OBS " + json.dumps(out))
