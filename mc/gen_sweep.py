"""Generator choice-tree sweep (C01 part A, C05 round-trip part).

For every grammar of a family and every node budget, ALL resolutions of the random
decisions taken by the real Grammar.fuzz are enumerated (random seam + stateless DFS);
production budgets, whose decision trees are not walkable, are explored to a deviation
bound.  Every produced tree is checked against RefGrammar (C01) and parsed back (C05).
"""
from __future__ import annotations

from mc import families
from mc.common import Ctx, pmap, rotate, tag, pmap_tagged
from mc.explore import dfs
from mc.fd import AdmissionCounter, Budget, Timeout, build, has_helper_symbols, snap, time_limit
from mc.refgrammar import Alt, Lit, NT, Opt, Plus, RefGrammar, Rep, Rx, Seq, Star, TreeChecker, WordMatcher, snap_text
from mc.seams import max_repetitions, random_seam

RUN_CAP = 300


def items(tier: str) -> list:
    quick = tier == "quick"
    out = []
    # production budgets (decision tree not walkable): deviation-bounded; heavy, so first
    for g in families.recursion_templates(None):
        for b in (50, 200):
            out.append((g, b, 1 if quick else 2))
    if quick:
        fam = families.text_family(1) + families.text_family(2, atoms=[Lit("a"), Rx("[ab]")], full_binary_depth=1)
        budgets = [0, 3, 10]
    else:
        fam = families.text_family(1) + families.text_family(2, atoms=[Lit("a"), Rx("[ab]"), Lit("bc")], full_binary_depth=1)
        budgets = [0, 1, 3, 6, 10]
    seen = set()
    for g in fam:
        k = g.fan()
        if k in seen:
            continue
        seen.add(k)
        for b in budgets:
            out.append((g, b, None))
    for g in families.binary_family(1):
        for b in (0, 3, 10):
            out.append((g, b, None))
    # open-ended repetitions whose declared minimum lies ABOVE the process-wide cap in force while generating (the cap is lowered to 2
    # after the spec was read): raising is an answer, a tree with fewer iterations than declared is not a derivation
    from mc.refgrammar import Alt, NT, RefGrammar, Rep, Seq
    x = NT("<x>")
    for body in (Rep(x, 3, None), Seq((Lit("["), Rep(x, 4, None), Lit("]"))), Rep(Seq((x, Lit("-"))), 3, None), Seq((Rep(x, 2, None), Rep(x, 3, None)))):
        for b in (3, 10):
            out.append((RefGrammar({"<start>": body, "<x>": Alt((Lit("a"), Lit("b")))}), b, None))
    return out


def work(item):
    g, budget, bound, which = item
    fan = g.fan()
    feats = families.features(g)
    res = {"fan": fan, "budget": budget, "runs": 0, "distinct": 0, "viol": [], "capped": False, "parse_skipped": 0, "roundtrips": 0}
    try:
        spec = build(fan)
    except Exception as e:
        res["spec_error"] = repr(e)
        return res
    tc = TreeChecker(g)
    diverges = False  # (grammars with an empty-deriving body under */+ no longer diverge: fix 6fe4bf86)
    seen: dict = {}

    def body(ch):
        with random_seam(ch), max_repetitions(2):
            try:
                return spec.grammar.fuzz("<start>", budget)
            except ValueError as e:
                if "empty range" in str(e):
                    return ("__raised__",)   # declared minimum above the cap: the generator refuses
                raise

    for choices, tree, _ in dfs(body, bound=bound, max_runs=RUN_CAP):
        if choices is None:
            res["capped"] = True
            break
        res["runs"] += 1
        if isinstance(tree, tuple) and tree and tree[0] == "__horizon__":
            res["capped"] = True
            continue
        if isinstance(tree, tuple) and tree and tree[0] == "__raised__":
            res["refused"] = res.get("refused", 0) + 1
            continue
        s = snap(tree)
        if s in seen:
            continue
        seen[s] = choices
        base = {"grammar": fan, "budget": budget, "choices": choices[:60], "feats": feats}
        if "C01" in which:
            why = has_helper_symbols(s)
            why = f"helper symbol {why}" if why else tc.ok(s, "<start>")
            if why is None:
                try:
                    ser = snap_text(s)
                    if g.binary and ser == "":
                        ser = b""
                    if not WordMatcher(g, ser).member():
                        why = f"serialisation {ser!r} is not a word of the language"
                except ValueError as e:
                    why = f"value undefined: {e}"
            if why is not None:
                res["viol"].append(("C01", dict(base, kind="generated_tree_not_a_derivation", why=why, tree=repr(s)[:300],
                                               sig="fuzz:not_a_derivation:" + ",".join(feats))))
        if "C05" in which:
            if diverges:
                res["parse_skipped"] += 1
                continue
            try:
                word = bytes(tree) if tree.should_be_serialized_to_bytes() else str(tree)
            except Exception as e:
                res["viol"].append(("C05", dict(base, kind="generated_tree_has_no_value", error=repr(e)[:150], sig="generated_tree_has_no_value")))
                continue
            if len(word) > 24:
                res["parse_skipped"] += 1  # long words of ambiguous grammars: forest size explodes; not parsed back
                continue
            try:
                with time_limit(10), AdmissionCounter(15_000):
                    back = []
                    gen = spec.parse(word)
                    for t in gen:  # the contract needs ONE tree with the identical serialisation
                        back.append(t)
                        if len(back) >= 8:
                            break
                    gen.close()
            except (Budget, Timeout):
                res["parse_skipped"] += 1
                continue
            except Exception as e:
                res["viol"].append(("C05", dict(base, kind="roundtrip_parse_raises", word=repr(word), error=repr(e)[:150], sig=f"roundtrip_parse_raises:{type(e).__name__}")))
                continue
            res["roundtrips"] += 1
            ok = False
            for t in back:
                try:
                    w2 = bytes(t) if t.should_be_serialized_to_bytes() else str(t)
                except Exception:
                    continue
                if w2 == word or (isinstance(word, bytes) and isinstance(w2, str) and w2.encode("latin-1") == word):
                    ok = True
                    break
            if not ok:
                needs_empty = False
                if isinstance(word, str):
                    needs_empty = not WordMatcher(g, word, preferred_rx=True, nonempty_rx=True).member()
                    pref = WordMatcher(g, word, preferred_rx=True).member()
                else:
                    pref = WordMatcher(g, word, preferred_rx=True).member()
                    needs_empty = not WordMatcher(g, word, preferred_rx=True, nonempty_rx=True).member()
                res["viol"].append(("C05", dict(base, kind="generated_word_does_not_parse_back", word=repr(word), trees_back=len(back),
                                               in_language=WordMatcher(g, word).member(),
                                               in_preferred_class=pref, needs_empty_regex_match=bool(pref and needs_empty),
                                               sig=f"roundtrip_fails:pref={pref}:needs_empty={bool(pref and needs_empty)}")))
    res["distinct"] = len(seen)
    return res


def sweep(ctx: Ctx, which: set) -> dict:
    its = items(ctx.tier)
    head, tail = its[:30], its[30:]
    its = head + rotate(tail, ctx.seed)
    ctx.log(f"generator sweep over {len(its)} (grammar, budget) pairs for {sorted(which)}")
    tasks = [it + (which,) for it in its]
    results = pmap_tagged(work, tasks, chunk=2)
    for t, r in zip(tasks, results):
        for _, case in r.get("viol", []):
            tag(case, "mc.gen_sweep", "work", t)
    agg = {"pairs": 0, "runs": 0, "distinct_trees": 0, "capped_pairs": 0, "parse_skipped": 0, "roundtrips": 0, "spec_errors": 0}
    samples = []
    for r in results:
        if "spec_error" in r:
            agg["spec_errors"] += 1
            continue
        agg["pairs"] += 1
        agg["runs"] += r["runs"]
        agg["distinct_trees"] += r["distinct"]
        agg["capped_pairs"] += r["capped"]
        agg["parse_skipped"] += r["parse_skipped"]
        agg["roundtrips"] += r["roundtrips"]
        for pid, case in r["viol"]:
            if pid == ctx.pid:
                ctx.violation(case)
        if len(samples) < 5 and r["distinct"] > 2:
            samples.append({"grammar": r["fan"], "budget": r["budget"], "executions": r["runs"], "distinct_trees": r["distinct"]})
    agg["samples"] = samples
    return agg
