#!/usr/bin/env python3
"""Self-test of the reference models (run by setup.sh and usable on its own).
Cross-checks, on regular grammars, the set-valued matcher against Python's re, against the
derivation enumerator + tree checker, and the viable-prefix matcher against brute force.
A reference model that disagrees with itself is an internal error, never a VIOLATION."""
import itertools
import re
import sys

sys.path.insert(0, "/verif")
from mc import families  # noqa: E402
from mc.refgrammar import Alt, Lit, NT, Opt, Plus, RefGrammar, Rep, Rx, Seq, Star, TreeChecker, WordMatcher, enum_trees, snap_text, viable  # noqa: E402


def to_re(n):
    if isinstance(n, Lit):
        return re.escape(n.v)
    if isinstance(n, Rx):
        return "(?:" + n.pat + ")"
    if isinstance(n, Seq):
        return "".join("(?:" + to_re(x) + ")" for x in n.items)
    if isinstance(n, Alt):
        return "(?:" + "|".join(to_re(x) for x in n.items) + ")"
    if isinstance(n, Opt):
        return "(?:" + to_re(n.x) + ")?"
    if isinstance(n, Star):
        return "(?:" + to_re(n.x) + ")*"
    if isinstance(n, Plus):
        return "(?:" + to_re(n.x) + ")+"
    if isinstance(n, Rep):
        return "(?:" + to_re(n.x) + "){" + str(n.lo) + "," + ("" if n.hi is None else str(n.hi)) + "}"
    raise TypeError(n)


def main() -> int:
    bodies = families.exprs([Lit("a"), Lit("ab"), Rx("a*"), Rx("[ab]"), Lit("b")], 2, full_binary_depth=1)
    words = ["".join(t) for L in range(5) for t in itertools.product("abc", repeat=L)]
    n = bad = 0
    for i, e in enumerate(bodies):
        if i % 7:
            continue
        g = RefGrammar({"<start>": e})
        rx = re.compile(to_re(e))
        lang = set()
        for w in words:
            n += 1
            m1 = WordMatcher(g, w).member()
            m2 = rx.fullmatch(w) is not None
            if m1 != m2:
                print("matcher vs re:", g.fan(), repr(w), m1, m2)
                bad += 1
            if m1:
                lang.add(w)
        # viable prefix vs brute force (extensions up to the word bound)
        for w in words:
            if len(w) <= 2:
                v = viable(g, w)
                brute = any(x.startswith(w) for x in lang)
                if brute and not v:
                    print("viable misses:", g.fan(), repr(w))
                    bad += 1
        # every enumerated derivation tree is accepted by the tree checker and spells a member
        tc = TreeChecker(g)
        for t in enum_trees(g, "<start>", 7, rx_strings=["", "a", "b", "aa", "ab"])[:60]:
            if tc.ok(t, "<start>") is not None or not WordMatcher(g, snap_text(t)).member():
                print("enumerator vs checker:", g.fan(), t)
                bad += 1
    # left recursion and nullable cycles
    g = RefGrammar({"<start>": Alt((Seq((NT("<start>"), Lit("a"))), Lit("b")))})
    assert WordMatcher(g, "baa").member() and not WordMatcher(g, "ab").member() and viable(g, "ba") and not viable(g, "a")
    g = RefGrammar({"<start>": Seq((Star(NT("<e>")), Lit("b"))), "<e>": Opt(Lit("a"))})
    assert WordMatcher(g, "aab").member() and WordMatcher(g, "b").member() and not WordMatcher(g, "ba").member()
    print(f"selftest: {n} membership comparisons, {bad} disagreements")
    return 1 if bad else 0


if __name__ == "__main__":
    sys.exit(main())
