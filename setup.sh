#!/bin/bash
# Offline setup: nothing is downloaded. Verifies the binding to /repo/src, runs the reference models'
# self-test, and pre-builds the C++ spec front end (C14) from /repo's current sources into /verif/.cache.
set -e
cd "$(dirname "$0")"
mkdir -p evidence replays
export PYTHONHASHSEED=0 PYTHONDONTWRITEBYTECODE=1
/venv/bin/python -c "import sys; sys.path.insert(0,'/verif'); import mc.fd; print('fandango bound to', mc.fd.fandango.__file__)"
/venv/bin/python tests/selftest.py
tools/build_cpp.sh >/dev/null && echo "C++ front end built/cached"
