#!/bin/bash
# Offline setup: nothing to download or compile for the Python explorers.
# The C++ spec front end (C14) is rebuilt on demand by the check itself from /repo's sources.
set -e
cd "$(dirname "$0")"
mkdir -p evidence replays
/venv/bin/python -c "import sys; sys.path.insert(0,'/verif'); import mc.fd; print('fandango bound to', mc.fd.fandango.__file__)"
